//! Scripted `Read` implementation: a hostile reader that delivers a byte
//! stream in short reads, with interrupted calls, premature EOF and hard
//! errors, logging every call.

use std::io::ErrorKind;
use std::io::Read;

use crate::prng::Rng;

#[derive(Clone, Copy, Debug, PartialEq, Eq)]
pub enum Step {
    /// Deliver up to this many bytes (clamped to the buffer and remaining data).
    Deliver(usize),
    /// Fill the caller's buffer as far as data allows.
    Fill,
    Interrupted,
    Eof,
    Fail(ErrorKind),
}

#[derive(Clone, Copy, Debug, PartialEq, Eq)]
pub enum Tail {
    /// Once the script is exhausted, serve the remaining data in full reads, then EOF.
    ServeAll,
    /// Once the script is exhausted, return EOF.
    Eof,
}

#[derive(Clone, Copy, Debug, PartialEq, Eq)]
pub enum Call {
    Delivered(usize),
    Interrupted,
    Eof,
    Failed(ErrorKind),
}

pub struct ScriptedReader<'a> {
    pub data: &'a [u8],
    pub pos: usize,
    pub script: Vec<Step>,
    pub next: usize,
    pub tail: Tail,
    /// (buffer length offered, outcome) for every call.
    pub calls: Vec<(usize, Call)>,
    pub log_calls: bool,
    pub ncalls: u64,
    pub interrupts: u64,
    /// scripted hard (non-EINTR) errors returned so far
    pub failures: u64,
}

impl<'a> ScriptedReader<'a> {
    pub fn new(data: &'a [u8], script: Vec<Step>, tail: Tail) -> Self {
        ScriptedReader {
            data,
            pos: 0,
            script,
            next: 0,
            tail,
            calls: Vec::new(),
            log_calls: true,
            ncalls: 0,
            interrupts: 0,
            failures: 0,
        }
    }

    pub fn remaining(&self) -> usize {
        self.data.len() - self.pos
    }

    fn deliver(&mut self, buf: &mut [u8], k: usize) -> usize {
        let n = k.min(buf.len()).min(self.remaining());
        buf[..n].copy_from_slice(&self.data[self.pos..self.pos + n]);
        self.pos += n;
        n
    }
}

impl Read for ScriptedReader<'_> {
    fn read(&mut self, buf: &mut [u8]) -> std::io::Result<usize> {
        self.ncalls += 1;
        let step = if self.next < self.script.len() {
            let s = self.script[self.next];
            self.next += 1;
            s
        } else {
            match self.tail {
                Tail::ServeAll => Step::Fill,
                Tail::Eof => Step::Eof,
            }
        };
        let offered = buf.len();
        let (ret, call) = match step {
            Step::Deliver(k) => {
                let n = self.deliver(buf, k.max(1));
                if n == 0 {
                    (Ok(0), Call::Eof)
                } else {
                    (Ok(n), Call::Delivered(n))
                }
            }
            Step::Fill => {
                let n = self.deliver(buf, usize::MAX);
                if n == 0 {
                    (Ok(0), Call::Eof)
                } else {
                    (Ok(n), Call::Delivered(n))
                }
            }
            Step::Interrupted => {
                self.interrupts += 1;
                (
                    Err(std::io::Error::new(ErrorKind::Interrupted, "scripted EINTR")),
                    Call::Interrupted,
                )
            }
            Step::Eof => (Ok(0), Call::Eof),
            Step::Fail(kind) => {
                self.failures += 1;
                (Err(std::io::Error::new(kind, "scripted failure")), Call::Failed(kind))
            }
        };
        if self.log_calls {
            self.calls.push((offered, call));
        }
        ret
    }
}

/// A random short-read / EINTR script (never a hard error, never a premature EOF).
pub fn benign_script(rng: &mut Rng, n: usize, max_piece: usize) -> Vec<Step> {
    let mut s = Vec::with_capacity(n);
    for _ in 0..n {
        s.push(match rng.below(10) {
            0..=1 => Step::Interrupted,
            2..=4 => Step::Deliver(1),
            5..=7 => Step::Deliver(rng.range(1, max_piece.max(1))),
            _ => Step::Fill,
        });
    }
    s
}
