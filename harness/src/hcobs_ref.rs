//! Independent reference HCOBS codec, written from the format description
//! (https://pvk.ca/Blog/2021/01/11/stuff-your-logs/ and the crate's
//! documentation), sharing no code or constants with the `hcobs` crate.
//!
//! Format: the message is a sequence of chunks.  The first chunk has a
//! one-byte length header, every later chunk a two-byte little-endian
//! radix-253 length header.  A chunk shorter than its limit (252 for the
//! first chunk, 64008 = 253*253-1 for later ones) is implicitly followed by
//! the stuff sequence FE FD, except for the last chunk of the message, whose
//! implicit stuff sequence is the terminator; a chunk exactly as long as its
//! limit is followed by nothing.  Hence a message always ends on a short chunk.

pub const PROD_FIRST: usize = 252;
pub const PROD_LATER: usize = 64008;
const RADIX_LIT: usize = 253;

fn find_stuff(window: &[u8]) -> Option<usize> {
    if window.len() < 2 {
        return None;
    }
    (0..window.len() - 1).find(|&i| window[i] == 0xFE && window[i + 1] == 0xFD)
}

fn push_header(out: &mut Vec<u8>, chunk_index: usize, len: usize) {
    if chunk_index == 0 {
        assert!(len < RADIX_LIT);
        out.push(len as u8);
    } else {
        assert!(len < RADIX_LIT * RADIX_LIT);
        out.push((len % RADIX_LIT) as u8);
        out.push((len / RADIX_LIT) as u8);
    }
}

/// Canonical encoding of `input` with chunk limits `first` / `later`.
pub fn encode(input: &[u8], first: usize, later: usize) -> Vec<u8> {
    let mut out = Vec::with_capacity(input.len() + 3 + 2 * (input.len() / later.max(1) + 1));
    let mut pos = 0usize;
    let mut chunk_index = 0usize;
    loop {
        let limit = if chunk_index == 0 { first } else { later };
        let end = (pos + limit).min(input.len());
        let window = &input[pos..end];
        if let Some(i) = find_stuff(window) {
            // Short chunk, implicitly followed by FE FD.
            push_header(&mut out, chunk_index, i);
            out.extend_from_slice(&window[..i]);
            pos += i + 2;
            chunk_index += 1;
        } else if window.len() == limit {
            // Full chunk, followed by nothing.
            push_header(&mut out, chunk_index, limit);
            out.extend_from_slice(window);
            pos += limit;
            chunk_index += 1;
        } else {
            // Rest of the input: the final short chunk (possibly empty).
            push_header(&mut out, chunk_index, window.len());
            out.extend_from_slice(window);
            return out;
        }
    }
}

/// Decodes `enc`; `None` if it is not a well-formed message.
pub fn decode(enc: &[u8], first: usize, later: usize) -> Option<Vec<u8>> {
    let mut out = Vec::with_capacity(enc.len());
    let mut pos = 0usize;
    let mut chunk_index = 0usize;
    let mut last_was_short = false;
    if enc.is_empty() {
        return None;
    }
    while pos < enc.len() {
        let (len, limit) = if chunk_index == 0 {
            let h = enc[pos] as usize;
            pos += 1;
            if h >= RADIX_LIT || h > first {
                return None;
            }
            (h, first)
        } else {
            if pos + 2 > enc.len() {
                return None;
            }
            let (a, b) = (enc[pos] as usize, enc[pos + 1] as usize);
            pos += 2;
            if a >= RADIX_LIT || b >= RADIX_LIT {
                return None;
            }
            let h = a + RADIX_LIT * b;
            if h > later {
                return None;
            }
            (h, later)
        };
        if chunk_index > 0 && last_was_short {
            out.extend_from_slice(&[0xFE, 0xFD]);
        }
        if pos + len > enc.len() {
            return None;
        }
        out.extend_from_slice(&enc[pos..pos + len]);
        pos += len;
        last_was_short = len < limit;
        chunk_index += 1;
    }
    if last_was_short {
        Some(out)
    } else {
        None
    }
}

/// Upper bound on the encoded length stated by property C02.
pub fn length_bound(len: usize, later: usize) -> usize {
    len + 1 + 2 * len.div_ceil(later)
}

/// Validates the reference codec against literal vectors copied from the
/// crate's own unit tests (3/5-byte limits).  A failure is a harness error.
pub fn self_test() -> Result<(), String> {
    let enc_vectors: &[(&[u8], &[u8])] = &[
        (b"", b"\x00"),
        (b"1", b"\x011"),
        (b"12", b"\x0212"),
        (b"123", b"\x03123\x00\x00"),
        (b"1234567", b"\x03123\x04\x004567"),
        (b"12345678", b"\x03123\x05\x0045678\x00\x00"),
        (b"123456789", b"\x03123\x05\x0045678\x01\x009"),
        (b"\xFE\xFD", b"\x00\x00\x00"),
        (b"1\xFE\xFD", b"\x011\x00\x00"),
        (b"12\xFE\xFD", b"\x0312\xFE\x01\x00\xFD"),
        (b"123\xFE\xFD", b"\x03123\x00\x00\x00\x00"),
        (b"1234\xFE\xFD\xFE", b"\x03123\x01\x004\x01\x00\xFE"),
        (b"1234\xFE\xFE\xFD", b"\x03123\x02\x004\xFE\x00\x00"),
        (b"1234\xFE\xFE\xFE", b"\x03123\x04\x004\xFE\xFE\xFE"),
        (b"1234\xFD\xFD\xFD", b"\x03123\x04\x004\xFD\xFD\xFD"),
    ];
    for (plain, enc) in enc_vectors {
        let got = encode(plain, 3, 5);
        if &got[..] != *enc {
            return Err(format!("reference encode({:?}) = {:?}, expected {:?}", plain, got, enc));
        }
        match decode(enc, 3, 5) {
            Some(d) if &d[..] == *plain => {}
            other => return Err(format!("reference decode({:?}) = {:?}, expected {:?}", enc, other, plain)),
        }
    }
    let reject: &[&[u8]] = &[
        b"",
        b"\x01",
        b"\x03123",
        b"\xff",
        b"\x0f",
        b"\x021",
        b"\x03123\xff",
        b"\x03123\x00\xff",
        b"\x03123\x00\x01",
        b"\x03123\x01\x00",
        b"\x03123\x05\x0045678",
    ];
    for enc in reject {
        if let Some(d) = decode(enc, 3, 5) {
            return Err(format!("reference decode({:?}) accepted as {:?}", enc, d));
        }
    }
    // Production-limit literals from the crate's smoke test.
    let got = encode(b"123456789789", PROD_FIRST, PROD_LATER);
    if got != b"\x0c123456789789" {
        return Err("reference prod encode mismatch".into());
    }
    let mut zeros = vec![0u8; 4096];
    zeros.extend_from_slice(&[0xFE, 0xFD]);
    let got = encode(&zeros, PROD_FIRST, PROD_LATER);
    if got[0] != 0xfc || got[253] != 0x31 || got[254] != 0x0f || got.len() != 1 + 252 + 2 + 3844 + 2 {
        return Err("reference prod encode (4096 zeros + stuff) mismatch".into());
    }
    Ok(())
}
