//! Minimal JSON value + renderer (no external crates are available offline
//! beyond what the repository already locks).

#[derive(Clone, Debug)]
pub enum Json {
    Null,
    Bool(bool),
    U(u64),
    I(i64),
    Str(String),
    Arr(Vec<Json>),
    Obj(Vec<(String, Json)>),
}

impl Json {
    pub fn obj() -> Json {
        Json::Obj(Vec::new())
    }

    pub fn set(&mut self, k: &str, v: Json) {
        if let Json::Obj(items) = self {
            items.push((k.to_string(), v));
        }
    }

    pub fn with(mut self, k: &str, v: Json) -> Json {
        self.set(k, v);
        self
    }

    pub fn s(v: impl Into<String>) -> Json {
        Json::Str(v.into())
    }

    /// Hex rendering of a byte string, truncated for readability.
    pub fn hex(bytes: &[u8]) -> Json {
        const MAX: usize = 96;
        let mut s = String::new();
        for b in bytes.iter().take(MAX) {
            s.push_str(&format!("{:02x}", b));
        }
        if bytes.len() > MAX {
            s.push_str(&format!("..(+{} bytes)", bytes.len() - MAX));
        }
        Json::Str(s)
    }

    pub fn render(&self) -> String {
        let mut out = String::new();
        self.render_into(&mut out);
        out
    }

    fn render_into(&self, out: &mut String) {
        match self {
            Json::Null => out.push_str("null"),
            Json::Bool(b) => out.push_str(if *b { "true" } else { "false" }),
            Json::U(v) => out.push_str(&v.to_string()),
            Json::I(v) => out.push_str(&v.to_string()),
            Json::Str(s) => {
                out.push('"');
                for c in s.chars() {
                    match c {
                        '"' => out.push_str("\\\""),
                        '\\' => out.push_str("\\\\"),
                        '\n' => out.push_str("\\n"),
                        '\r' => out.push_str("\\r"),
                        '\t' => out.push_str("\\t"),
                        c if (c as u32) < 0x20 => out.push_str(&format!("\\u{:04x}", c as u32)),
                        c => out.push(c),
                    }
                }
                out.push('"');
            }
            Json::Arr(items) => {
                out.push('[');
                for (i, it) in items.iter().enumerate() {
                    if i > 0 {
                        out.push(',');
                    }
                    it.render_into(out);
                }
                out.push(']');
            }
            Json::Obj(items) => {
                out.push('{');
                for (i, (k, v)) in items.iter().enumerate() {
                    if i > 0 {
                        out.push(',');
                    }
                    Json::Str(k.clone()).render_into(out);
                    out.push(':');
                    v.render_into(out);
                }
                out.push('}');
            }
        }
    }
}
