//! Deterministic PRNG (splitmix64 seeding + xoshiro256**) and small helpers.
//! No wall-clock or address entropy: a (seed, engine, index) triple replays.

#[derive(Clone, Debug)]
pub struct Rng {
    s: [u64; 4],
}

pub fn splitmix64(state: &mut u64) -> u64 {
    *state = state.wrapping_add(0x9E37_79B9_7F4A_7C15);
    let mut z = *state;
    z = (z ^ (z >> 30)).wrapping_mul(0xBF58_476D_1CE4_E5B9);
    z = (z ^ (z >> 27)).wrapping_mul(0x94D0_49BB_1331_11EB);
    z ^ (z >> 31)
}

/// Mixes several words into one seed.
pub fn mix(words: &[u64]) -> u64 {
    let mut st = 0x1234_5678_9ABC_DEF0u64;
    let mut acc = 0u64;
    for w in words {
        st ^= *w;
        acc = acc.rotate_left(17) ^ splitmix64(&mut st);
    }
    acc
}

pub fn hash_str(s: &str) -> u64 {
    // FNV-1a
    let mut h = 0xcbf2_9ce4_8422_2325u64;
    for b in s.as_bytes() {
        h ^= *b as u64;
        h = h.wrapping_mul(0x0000_0100_0000_01B3);
    }
    h
}

pub fn hash_bytes(bytes: &[u8]) -> u64 {
    let mut h = 0xcbf2_9ce4_8422_2325u64;
    for b in bytes {
        h ^= *b as u64;
        h = h.wrapping_mul(0x0000_0100_0000_01B3);
    }
    h
}

impl Rng {
    pub fn new(seed: u64) -> Rng {
        let mut st = seed;
        let s = [
            splitmix64(&mut st),
            splitmix64(&mut st),
            splitmix64(&mut st),
            splitmix64(&mut st),
        ];
        Rng { s }
    }

    pub fn for_case(seed: u64, engine: &str, index: u64) -> Rng {
        Rng::new(mix(&[seed, hash_str(engine), index]))
    }

    #[inline]
    pub fn next_u64(&mut self) -> u64 {
        let result = self.s[1].wrapping_mul(5).rotate_left(7).wrapping_mul(9);
        let t = self.s[1] << 17;
        self.s[2] ^= self.s[0];
        self.s[3] ^= self.s[1];
        self.s[1] ^= self.s[2];
        self.s[0] ^= self.s[3];
        self.s[2] ^= t;
        self.s[3] = self.s[3].rotate_left(45);
        result
    }

    /// Uniform in [0, n) (n > 0).
    #[inline]
    pub fn below(&mut self, n: u64) -> u64 {
        debug_assert!(n > 0);
        // multiply-shift; tiny bias irrelevant here
        ((self.next_u64() as u128 * n as u128) >> 64) as u64
    }

    #[inline]
    pub fn usize_below(&mut self, n: usize) -> usize {
        self.below(n as u64) as usize
    }

    /// Uniform in [lo, hi] inclusive.
    #[inline]
    pub fn range(&mut self, lo: usize, hi: usize) -> usize {
        debug_assert!(lo <= hi);
        lo + self.usize_below(hi - lo + 1)
    }

    #[inline]
    pub fn chance(&mut self, num: u64, den: u64) -> bool {
        self.below(den) < num
    }

    #[inline]
    pub fn pick<'a, T>(&mut self, xs: &'a [T]) -> &'a T {
        &xs[self.usize_below(xs.len())]
    }

    /// Picks an index according to integer weights.
    pub fn weighted(&mut self, weights: &[u32]) -> usize {
        let total: u64 = weights.iter().map(|w| *w as u64).sum();
        let mut x = self.below(total.max(1));
        for (i, w) in weights.iter().enumerate() {
            if x < *w as u64 {
                return i;
            }
            x -= *w as u64;
        }
        weights.len() - 1
    }
}
