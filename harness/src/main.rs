use wpmon::ctx::Args;
use wpmon::ctx::Ctx;

fn main() {
    let argv: Vec<String> = std::env::args().collect();
    if argv.len() < 2 {
        eprintln!("usage: wpmon <engine> [--key value]...");
        std::process::exit(2);
    }
    let args = Args::parse(&argv);
    wpmon::ctx::install_quiet_panic_hook();
    let mut ctx = Ctx::new(args.clone());
    let engine = args.engine.clone();
    let res = std::panic::catch_unwind(std::panic::AssertUnwindSafe(|| run_engine(&engine, &mut ctx)));
    if res.is_err() {
        // A panic that escaped an engine's own catch is a harness error
        // (exit 3, inconclusive), never a verdict.
        eprintln!("HARNESS-PANIC engine={} {}", engine, wpmon::ctx::take_last_panic());
        std::process::exit(3);
    }
    ctx.finish();
}

fn run_engine(engine: &str, ctx: &mut Ctx) {
    let ctx = &mut *ctx;
    match engine {
        "noop" => {}
        // Driver self-tests: deliberately misbehave so that ./check --selftest can
        // verify that sanitizer / Miri reports are recognised and attributed.
        "selftest-uaf" => {
            ctx.begin_case(7, || wpmon::json::Json::obj().with("kind", wpmon::json::Json::s("selftest-uaf")).with("index", wpmon::json::Json::U(7)));
            let v = vec![1u8, 2, 3, 4];
            let p = v.as_ptr();
            drop(v);
            let x = unsafe { std::ptr::read_volatile(p.add(1)) };
            println!("read {}", x);
            ctx.end_case(7);
        }
        "selftest-leak" => {
            ctx.begin_case(8, || wpmon::json::Json::obj().with("kind", wpmon::json::Json::s("selftest-leak")).with("index", wpmon::json::Json::U(8)));
            let v = vec![0u8; 4096];
            std::mem::forget(v);
            ctx.end_case(8);
        }
        "selftest-abort" => {
            // a panic inside a destructor while already unwinding: the
            // run-time aborts the process (what a crate does when one of its
            // Drop impls trips an assertion during a panic)
            struct Bomb;
            impl Drop for Bomb {
                fn drop(&mut self) {
                    panic!("selftest: second panic inside a destructor");
                }
            }
            ctx.begin_case(7, || wpmon::json::Json::obj().with("kind", wpmon::json::Json::s("selftest-abort")).with("index", wpmon::json::Json::U(7)));
            let _bomb = Bomb;
            panic!("selftest: first panic");
        }
        "codec" => wpmon::engines::codec::run(ctx),
        "record-stream" => wpmon::engines::codec::run_record_streams(ctx),
        "codec-stream" => wpmon::engines::codec::run_stream(ctx),
        "iovec" => wpmon::engines::iovec::run(ctx),
        "stream" => wpmon::engines::stream::run(ctx),
        "readn" => wpmon::engines::readn::run(ctx),
        "tlv-c11" => wpmon::engines::tlv::run_c11(ctx),
        "tlv-c12" => wpmon::engines::tlv::run_c12(ctx),
        "vtime" => wpmon::engines::vtime::run(ctx),
        "abt" => wpmon::engines::abt::run(ctx),
        "park" => wpmon::engines::park::run(ctx),
        "nfs" => wpmon::engines::nfs::run(ctx),
        "deque-c15" => wpmon::engines::deque::run_c15(ctx),
        "deque-c16" => wpmon::engines::deque::run_c16(ctx),
        other => {
            eprintln!("unknown engine {}", other);
            std::process::exit(2);
        }
    }
}
