use wpmon::ctx::Args;
use wpmon::ctx::Ctx;

fn main() {
    let argv: Vec<String> = std::env::args().collect();
    if argv.len() < 2 {
        eprintln!("usage: wpmon <engine> [--key value]...");
        std::process::exit(2);
    }
    let args = Args::parse(&argv);
    wpmon::ctx::install_quiet_panic_hook();
    let mut ctx = Ctx::new(args.clone());
    match args.engine.as_str() {
        "noop" => {}
        "codec" => wpmon::engines::codec::run(&mut ctx),
        "codec-stream" => wpmon::engines::codec::run_stream(&mut ctx),
        "iovec" => wpmon::engines::iovec::run(&mut ctx),
        "stream" => wpmon::engines::stream::run(&mut ctx),
        "readn" => wpmon::engines::readn::run(&mut ctx),
        "deque-c15" => wpmon::engines::deque::run_c15(&mut ctx),
        "deque-c16" => wpmon::engines::deque::run_c16(&mut ctx),
        other => {
            eprintln!("unknown engine {}", other);
            std::process::exit(2);
        }
    }
    ctx.finish();
}
