//! Generators: hostile byte strings, lengths around the interesting
//! thresholds, and segmentations.

use crate::prng::Rng;

pub const DANGEROUS: [u8; 5] = [0xFE, 0xFD, 0xFC, 0x00, 0xFF];

#[derive(Clone, Copy, Debug, PartialEq, Eq)]
pub enum Style {
    /// 70% bytes from {FE, FD, FC, 00, FF}
    Dense,
    /// mostly FE / FD
    StuffHeavy,
    /// uniform random
    Uniform,
    /// no FE at all (no chunk boundary before the limit)
    NoFe,
    /// FE FD FE FD ...
    AllStuff,
    /// long runs without stuff interleaved with isolated stuff sequences
    Runs,
}

pub const STYLES: [Style; 6] = [
    Style::Dense,
    Style::StuffHeavy,
    Style::Uniform,
    Style::NoFe,
    Style::AllStuff,
    Style::Runs,
];

pub fn payload(rng: &mut Rng, len: usize, style: Style) -> Vec<u8> {
    let mut v = Vec::with_capacity(len);
    match style {
        Style::Dense => {
            for _ in 0..len {
                if rng.chance(7, 10) {
                    v.push(*rng.pick(&DANGEROUS));
                } else {
                    v.push(rng.next_u64() as u8);
                }
            }
        }
        Style::StuffHeavy => {
            for _ in 0..len {
                let b = match rng.below(10) {
                    0..=3 => 0xFE,
                    4..=7 => 0xFD,
                    8 => 0xFC,
                    _ => rng.next_u64() as u8,
                };
                v.push(b);
            }
        }
        Style::Uniform => {
            let mut i = 0;
            while i < len {
                let w = rng.next_u64().to_le_bytes();
                let n = (len - i).min(8);
                v.extend_from_slice(&w[..n]);
                i += n;
            }
        }
        Style::NoFe => {
            let mut i = 0;
            while i < len {
                let w = rng.next_u64().to_le_bytes();
                let n = (len - i).min(8);
                for b in &w[..n] {
                    v.push(if *b == 0xFE { 0xFD } else { *b });
                }
                i += n;
            }
        }
        Style::AllStuff => {
            for i in 0..len {
                v.push(if i % 2 == 0 { 0xFE } else { 0xFD });
            }
        }
        Style::Runs => {
            while v.len() < len {
                let run = rng.range(1, 3000).min(len - v.len());
                let fill = *rng.pick(&[0x00u8, 0x41, 0xFD, 0xFC, 0xFF]);
                for _ in 0..run {
                    v.push(fill);
                }
                if v.len() + 2 <= len && rng.chance(2, 3) {
                    v.push(0xFE);
                    v.push(0xFD);
                } else if v.len() < len {
                    v.push(0xFE);
                }
            }
        }
    }
    v.truncate(len);
    v
}

/// Plants FE / FD / FE FD within +-2 bytes of the given absolute positions.
pub fn plant_near(rng: &mut Rng, buf: &mut [u8], positions: &[usize]) {
    for &p in positions {
        if buf.is_empty() {
            return;
        }
        let delta = rng.range(0, 4) as isize - 2;
        let q = p as isize + delta;
        if q < 0 || q as usize >= buf.len() {
            continue;
        }
        let q = q as usize;
        match rng.below(4) {
            0 => buf[q] = 0xFE,
            1 => buf[q] = 0xFD,
            _ => {
                buf[q] = 0xFE;
                if q + 1 < buf.len() {
                    buf[q + 1] = 0xFD;
                }
            }
        }
    }
}

/// Message lengths for codec workloads under the production limits.
pub fn prod_length(rng: &mut Rng, max: usize) -> usize {
    if rng.chance(1, 25) {
        // right around a power of two
        let k = rng.range(12, 17);
        return ((1usize << k) + rng.range(0, 6) - 3).min(max);
    }
    let l = match rng.below(100) {
        0..=14 => rng.range(0, 8),
        15..=34 => rng.range(248, 258),
        35..=44 => rng.range(0, 600),
        45..=59 => 252 + 64008 * rng.range(0, 2) + rng.range(0, 6) - 3,
        60..=74 => rng.range(64004, 64014),
        75..=84 => rng.range(64256, 64266),
        85..=89 => 2 * 64008 + 252 + rng.range(0, 6) - 3,
        90..=94 => rng.range(0, 20000),
        _ => rng.range(0, max),
    };
    l.min(max)
}

/// Slice lengths around the iovec thresholds and arena chunk sizes.
pub fn iovec_length(rng: &mut Rng, small_only: bool) -> usize {
    if small_only {
        return match rng.below(10) {
            0..=3 => rng.range(1, 8),
            4..=6 => rng.range(60, 68),
            7..=8 => rng.range(250, 260),
            _ => rng.range(1, 300),
        };
    }
    if rng.chance(1, 150) {
        // right around a power of two (the arena's chunk sizes are 4 KiB .. 1 MiB)
        let k = rng.range(12, 20);
        return (1usize << k) + rng.range(0, 6) - 3;
    }
    match rng.below(100) {
        0..=24 => rng.range(1, 8),
        25..=39 => rng.range(62, 66),
        40..=54 => rng.range(254, 258),
        55..=69 => rng.range(1, 300),
        70..=79 => rng.range(4090, 4100),
        80..=84 => rng.range(8190, 8195),
        85..=94 => rng.range(300, 3000),
        _ => rng.range(1, 20000),
    }
}

/// Cuts `len` into pieces; returns the sorted cut positions (without 0 / len).
pub fn cuts(rng: &mut Rng, len: usize, marks: &[usize]) -> Vec<usize> {
    if len == 0 {
        return Vec::new();
    }
    let mut c: Vec<usize> = Vec::new();
    match rng.below(10) {
        0 => {}
        1 => {
            // all single bytes (only for short inputs)
            if len <= 300 {
                c.extend(1..len);
            } else {
                let k = rng.range(1, 40);
                for _ in 0..k {
                    c.push(rng.range(1, len - 1).max(1));
                }
            }
        }
        2..=4 => {
            // at / just before / just after interesting marks
            for &m in marks {
                if rng.chance(2, 3) {
                    let d = rng.range(0, 2) as isize - 1;
                    let q = m as isize + d;
                    if q > 0 && (q as usize) < len {
                        c.push(q as usize);
                    }
                }
            }
        }
        5..=7 => {
            let k = rng.range(1, 12);
            for _ in 0..k {
                if len > 1 {
                    c.push(rng.range(1, len - 1));
                }
            }
        }
        _ => {
            // many small pieces at the start, big tail
            let mut p = 0;
            for _ in 0..rng.range(1, 30) {
                p += rng.range(1, 5);
                if p < len {
                    c.push(p);
                }
            }
        }
    }
    c.retain(|&x| x > 0 && x < len);
    c.sort_unstable();
    c.dedup();
    c
}

/// Positions of FE bytes and of chunk-limit boundaries (approximate: based on
/// the plain offsets) used as marks for cuts.
pub fn interesting_marks(data: &[u8], first: usize, later: usize, cap: usize) -> Vec<usize> {
    let mut m = Vec::new();
    let mut p = first;
    while p < data.len() && m.len() < cap {
        m.push(p);
        p += later;
    }
    for (i, b) in data.iter().enumerate() {
        if *b == 0xFE {
            m.push(i);
            m.push(i + 1);
            if m.len() >= cap {
                break;
            }
        }
    }
    m
}

/// Deterministic position-dependent pattern: any two distinct windows of at
/// least 4 bytes differ with overwhelming probability, so stale or aliased
/// reads show up as content mismatches.
#[inline]
pub fn pattern_byte(n: u64) -> u8 {
    let mut z = n.wrapping_mul(0x9E37_79B9_7F4A_7C15);
    z ^= z >> 29;
    z = z.wrapping_mul(0xBF58_476D_1CE4_E5B9);
    (z >> 32) as u8
}

pub fn pattern(start: u64, len: usize) -> Vec<u8> {
    let mut v = Vec::with_capacity(len);
    for i in 0..len as u64 {
        v.push(pattern_byte(start + i));
    }
    v
}
