//! Exposed-slice monitor (C05): every slice the read side hands out must lie
//! inside a live arena chunk (hook H1 registry) or inside a harness-owned
//! buffer that is still alive; arena-resident slices of one view must be
//! pairwise disjoint; no exposed slice may be empty.

use std::io::IoSlice;

#[derive(Default, Clone)]
pub struct Owned {
    ranges: Vec<(usize, usize)>,
}

impl Owned {
    pub fn new() -> Owned {
        Owned { ranges: Vec::new() }
    }

    pub fn add(&mut self, buf: &[u8]) {
        if !buf.is_empty() {
            self.ranges.push((buf.as_ptr() as usize, buf.len()));
        }
    }

    pub fn contains(&self, addr: usize, len: usize) -> bool {
        self.ranges
            .iter()
            .any(|(s, l)| *s <= addr && addr + len <= *s + *l)
    }
}

#[derive(Clone, Copy, Debug, PartialEq, Eq)]
pub enum Residence {
    Arena(usize),
    Harness,
}

pub fn locate(addr: usize, len: usize, owned: &Owned) -> Option<Residence> {
    if let Some((start, _)) = owning_iovec::verif::chunk_containing(addr, len) {
        return Some(Residence::Arena(start));
    }
    if owned.contains(addr, len) {
        return Some(Residence::Harness);
    }
    None
}

#[derive(Default)]
pub struct ExposeStats {
    pub slices_checked: u64,
    pub arena_slices: u64,
    pub harness_slices: u64,
}

/// Checks one view (e.g. `stable_prefix()`); returns Err(description) on the
/// first slice that is empty, dangling / out of range, or overlapping.
pub fn check_view(slices: &[IoSlice<'_>], owned: &Owned, stats: &mut ExposeStats) -> Result<(), String> {
    let mut arena: Vec<(usize, usize)> = Vec::new();
    for (i, s) in slices.iter().enumerate() {
        let addr = s.as_ptr() as usize;
        let len = s.len();
        if len == 0 {
            return Err(format!("exposed slice #{} is empty", i));
        }
        stats.slices_checked += 1;
        match locate(addr, len, owned) {
            Some(Residence::Arena(_)) => {
                stats.arena_slices += 1;
                arena.push((addr, len));
            }
            Some(Residence::Harness) => stats.harness_slices += 1,
            None => {
                return Err(format!(
                    "exposed slice #{} [{:#x}, +{}) is neither inside a live arena chunk nor inside a live caller buffer",
                    i, addr, len
                ));
            }
        }
    }
    if arena.len() > 1 {
        arena.sort_unstable();
        for w in arena.windows(2) {
            if w[0].0 + w[0].1 > w[1].0 {
                return Err(format!(
                    "arena-resident slices overlap: [{:#x}, +{}) and [{:#x}, +{})",
                    w[0].0, w[0].1, w[1].0, w[1].1
                ));
            }
        }
    }
    Ok(())
}

/// Checks a single raw slice (AnchoredSlice contents, chunker Data, ...).
pub fn check_one(slice: &[u8], owned: &Owned, stats: &mut ExposeStats) -> Result<(), String> {
    if slice.is_empty() {
        return Ok(());
    }
    stats.slices_checked += 1;
    match locate(slice.as_ptr() as usize, slice.len(), owned) {
        Some(Residence::Arena(_)) => {
            stats.arena_slices += 1;
            Ok(())
        }
        Some(Residence::Harness) => {
            stats.harness_slices += 1;
            Ok(())
        }
        None => Err(format!(
            "slice [{:#x}, +{}) is neither inside a live arena chunk nor inside a live caller buffer",
            slice.as_ptr() as usize,
            slice.len()
        )),
    }
}
