//! Engine `vtime` (C14): VouchedTime::{new, check, now, get_local_time}
//! against an i128 window predicate.

use raffle::Voucher;
use raffle::VouchingParameters;
use time::OffsetDateTime;
use time::PrimitiveDateTime;
use vouched_time::VouchedTime;

use crate::ctx::catch;
use crate::ctx::panic_sig;
use crate::ctx::Ctx;
use crate::json::Json;
use crate::prng::mix;
use crate::prng::Rng;

/// The crate's vouching parameters (public in its source and tests).
pub const CRATE_PARAMS: VouchingParameters =
    VouchingParameters::parse_or_die("VOUCH-773ec2a0e62c20cd-f9e079b78e895091-fc1da7b1b77c57cb-594b9cce3091464a");
/// Some other, unrelated parameters (the example in raffle's documentation).
const OTHER_PARAMS: VouchingParameters =
    VouchingParameters::parse_or_die("VOUCH-13df39ed9cd4e2c9-97b5007485c16f9b-76d12fb42cb03d2d-2952336c44217bb8");

const BACK: i128 = 59_900;
const FWD: i128 = 2_990;

pub fn voucher_from_bits(bits: u64) -> Voucher {
    // Voucher is a #[repr(transparent)] wrapper around u64; raffle documents
    // transmute as the (deliberately unsafe) way to stamp arbitrary bits.
    unsafe { std::mem::transmute::<u64, Voucher>(bits) }
}

pub fn voucher_bits(v: Voucher) -> u64 {
    unsafe { std::mem::transmute::<Voucher, u64>(v) }
}

#[derive(Clone, Copy, Debug, PartialEq, Eq)]
enum VKind {
    Right,
    BasePlus1,
    BaseMinus1,
    OtherParams,
    RandomBits,
}
const VKINDS: [VKind; 5] = [VKind::Right, VKind::BasePlus1, VKind::BaseMinus1, VKind::OtherParams, VKind::RandomBits];

fn make_voucher(kind: VKind, base: u64, salt: u64) -> Voucher {
    match kind {
        VKind::Right => CRATE_PARAMS.vouch(base),
        VKind::BasePlus1 => CRATE_PARAMS.vouch(base.wrapping_add(1)),
        VKind::BaseMinus1 => CRATE_PARAMS.vouch(base.wrapping_sub(1)),
        VKind::OtherParams => OTHER_PARAMS.vouch(base),
        VKind::RandomBits => voucher_from_bits(voucher_bits(CRATE_PARAMS.vouch(base)) ^ (salt | 1)),
    }
}

fn local_from_ms(ms: i128, sub_ms_nanos: i128) -> Option<PrimitiveDateTime> {
    let odt = OffsetDateTime::from_unix_timestamp_nanos(ms * 1_000_000 + sub_ms_nanos).ok()?;
    Some(PrimitiveDateTime::new(odt.date(), odt.time()))
}

fn local_ms_exact(local: PrimitiveDateTime) -> (i128, i128) {
    let ns = local.assume_utc().unix_timestamp_nanos();
    (ns.div_euclid(1_000_000), ns.rem_euclid(1_000_000))
}

struct Fail {
    sig: String,
    what: String,
}

#[derive(Default)]
struct Obs {
    accepted: u64,
    rejected_voucher: u64,
    rejected_window: u64,
    rejected_epoch: u64,
    edge_cases: u64,
    wrap_region: u64,
    or_die_checked: u64,
}

/// Checks one (local, base, voucher kind) triple.
fn check_triple(local: PrimitiveDateTime, base: u64, kind: VKind, salt: u64, obs: &mut Obs) -> Result<bool, Fail> {
    let voucher = make_voucher(kind, base, salt);
    let (lms, frac) = local_ms_exact(local);
    let voucher_ok = voucher_bits(voucher) == voucher_bits(CRATE_PARAMS.vouch(base));
    let diff = lms - base as i128;
    // Whole-millisecond locals only on the edges: what "inclusive" means for a
    // sub-millisecond excess is not defined by the statement.
    let on_edge = diff == -BACK || diff == FWD || diff == -BACK - 1 || diff == FWD + 1 || lms == 0 || lms == -1;
    if on_edge && frac != 0 {
        return Ok(false);
    }
    let window_ok = lms >= 0 && diff >= -BACK && diff <= FWD;
    let want = voucher_ok && window_ok;
    if on_edge {
        obs.edge_cases += 1;
    }
    if base > u64::MAX - 70_000 {
        obs.wrap_region += 1;
    }

    let r_new = catch(|| VouchedTime::new(local, base, voucher));
    let r_check = catch(|| VouchedTime::check(local, base, voucher));
    let describe = || format!("local_ms={} base={} diff={} voucher={:?}", lms, base, diff, kind);
    let new_ok = match r_new {
        Err(p) => return Err(Fail { sig: format!("panic:{}", panic_sig(&p)), what: format!("VouchedTime::new panicked: {} ({})", p, describe()) }),
        Ok(r) => r,
    };
    let check_ok = match r_check {
        Err(p) => return Err(Fail { sig: format!("panic:{}", panic_sig(&p)), what: format!("VouchedTime::check panicked: {} ({})", p, describe()) }),
        Ok(r) => r.is_ok(),
    };
    if new_ok.is_ok() != check_ok {
        return Err(Fail { sig: "new-vs-check".into(), what: format!("new() and check() disagree ({})", describe()) });
    }
    // The panicking constructor must draw the same line (sampled: on every
    // edge case and on one triple in 32).
    if on_edge || salt % 32 == 0 {
        let died = catch(|| VouchedTime::new_or_die(local, base, voucher)).is_err();
        if died == new_ok.is_ok() {
            return Err(Fail {
                sig: "new_or_die-vs-new".into(),
                what: format!("new_or_die {} although new() {} ({})", if died { "panicked" } else { "returned a value" }, if new_ok.is_ok() { "succeeded" } else { "failed" }, describe()),
            });
        }
        obs.or_die_checked += 1;
    }
    match (new_ok, want) {
        (Ok(vt), true) => {
            if catch(|| vt.check_or_die()).is_err() {
                return Err(Fail { sig: "check_or_die".into(), what: format!("check_or_die() panicked on a value new() returned ({})", describe()) });
            }
            let got = catch(|| vt.get_local_time()).map_err(|p| Fail { sig: format!("panic:{}", panic_sig(&p)), what: format!("get_local_time panicked: {}", p) })?;
            if got != local {
                return Err(Fail { sig: "local-time".into(), what: format!("get_local_time() = {:?}, constructed from {:?}", got, local) });
            }
            obs.accepted += 1;
            Ok(true)
        }
        (Err(_), false) => {
            if !voucher_ok {
                obs.rejected_voucher += 1;
            } else if lms < 0 {
                obs.rejected_epoch += 1;
            } else {
                obs.rejected_window += 1;
            }
            Ok(true)
        }
        (Ok(_), false) => {
            let why = if !voucher_ok { "accepts-bad-voucher" } else if lms < 0 { "accepts-before-epoch" } else if diff.unsigned_abs() > (1u128 << 63) { "accepts-wraparound" } else { "accepts-outside-window" };
            Err(Fail { sig: why.into(), what: format!("VouchedTime::new succeeded but the rule rejects it ({})", describe()) })
        }
        (Err(e), true) => Err(Fail { sig: "rejects-inside-window".into(), what: format!("VouchedTime::new failed ({}) but the rule accepts it ({})", e, describe()) }),
    }
}

fn case_json(idx: u64, kind: &str, detail: String) -> Json {
    Json::obj().with("kind", Json::s(kind)).with("index", Json::U(idx)).with("detail", Json::Str(detail))
}

const DELTAS: [i128; 16] = [-59_902, -59_901, -59_900, -59_899, -59_898, -1, 0, 1, 2_988, 2_989, 2_990, 2_991, 2_992, -30_000, 1_500, 100_000];

fn bases(rng: &mut Rng) -> Vec<u64> {
    let mut v: Vec<u64> = vec![0, 1, 2, 2_989, 2_990, 2_991, 59_899, 59_900, 59_901, 62_890, 1_713_027_659_000, 253_402_300_799_999, 253_402_300_800_000, (1 << 63) - 1, 1 << 63, (1 << 63) + 1, u64::MAX, u64::MAX - 1, u64::MAX - 500, u64::MAX - 2_989, u64::MAX - 2_990, u64::MAX - 2_991, u64::MAX - 59_899, u64::MAX - 59_900, u64::MAX - 59_901, u64::MAX - 62_890, u64::MAX - 62_891, u64::MAX - 70_000];
    for _ in 0..8 {
        v.push(u64::MAX - rng.below(70_001));
    }
    v
}

pub fn run(ctx: &mut Ctx) {
    let thorough = ctx.args.thorough();
    let miri = ctx.args.miri();
    let random_cases = ctx.args.cases.unwrap_or(if thorough { 20_000_000 } else { 1_000_000 });
    let now_cases = ctx.args.get_u64("now-cases", if miri { 0 } else if thorough { 200_000 } else { 20_000 });
    let mut index = 0u64;

    // (1) systematic grid: bases x deltas x voucher kinds, plus absolute locals
    {
        let mut rng0 = Rng::new(ctx.args.seed ^ 0x7711);
        let bs = bases(&mut rng0);
        let mut absolute: Vec<PrimitiveDateTime> = vec![PrimitiveDateTime::MIN, PrimitiveDateTime::MAX];
        for ms in [-2i128, -1, 0, 1, 2, 2_989, 2_990, 2_991, 3_000, 59_900, 62_890, 62_891] {
            if let Some(l) = local_from_ms(ms, 0) {
                absolute.push(l);
            }
        }
        for (bi, base) in bs.iter().enumerate() {
            let idx = index;
            index += 1;
            if !ctx.mine(idx) {
                continue;
            }
            ctx.begin_case(idx, || case_json(idx, "grid", format!("base={}", base)));
            let mut obs = Obs::default();
            let mut ok = true;
            let mut locals: Vec<PrimitiveDateTime> = absolute.clone();
            for d in DELTAS {
                if let Some(l) = local_from_ms(*base as i128 + d, 0) {
                    locals.push(l);
                }
            }
            'grid: for l in &locals {
                for k in VKINDS {
                    ctx.cases += 1;
                    match check_triple(*l, *base, k, 0x9e37 + bi as u64, &mut obs) {
                        Ok(_) => {}
                        Err(f) => {
                            ctx.violate(&["C14"], &f.sig, f.what, case_json(idx, "grid", format!("base={} local={:?} voucher={:?}", base, l, k)));
                            ok = false;
                            break 'grid;
                        }
                    }
                }
            }
            ctx.cases -= 1;
            if ok {
                record(ctx, &obs);
                ctx.signature(mix(&[1, *base]));
            }
            ctx.end_case(idx);
            if ctx.too_many_violations() {
                return;
            }
        }
    }
    index = index.max(1 << 20);

    // (2) random triples
    for r in 0..random_cases {
        let idx = index;
        index += 1;
        if !ctx.mine(idx) {
            continue;
        }
        let mut rng = Rng::for_case(ctx.args.seed, "vtime", r);
        let base: u64 = match rng.below(8) {
            0 => rng.below(200_000),
            1 => u64::MAX - rng.below(70_001),
            2 => (1u64 << 63).wrapping_add(rng.below(200_000)).wrapping_sub(100_000),
            3 => rng.next_u64(),
            4 => 253_402_300_799_999u64.wrapping_add(rng.below(200_000)).wrapping_sub(100_000),
            _ => 1_600_000_000_000 + rng.below(400_000_000_000),
        };
        let d: i128 = match rng.below(6) {
            0 => DELTAS[rng.usize_below(DELTAS.len())],
            1 => -(rng.below(70_000) as i128),
            2 => rng.below(4_000) as i128,
            3 => (rng.below(10_000_000) as i128) - 5_000_000,
            _ => (rng.below(63_000) as i128) - 59_950,
        };
        let sub = if rng.chance(1, 3) { rng.below(1_000_000) as i128 } else { 0 };
        let local = if rng.chance(1, 12) {
            // independent absolute local time (often tiny: the wrap-around region)
            local_from_ms(rng.below(70_000) as i128, sub)
        } else {
            local_from_ms(base as i128 + d, sub)
        };
        let Some(local) = local else {
            continue;
        };
        let kind = if rng.chance(3, 5) { VKind::Right } else { VKINDS[rng.usize_below(VKINDS.len())] };
        ctx.begin_case(idx, || case_json(idx, "random", format!("base={} local={:?} voucher={:?}", base, local, kind)));
        let mut obs = Obs::default();
        match check_triple(local, base, kind, rng.next_u64(), &mut obs) {
            Ok(counted) => {
                if counted {
                    record(ctx, &obs);
                    ctx.signature(mix(&[2, obs.accepted, obs.rejected_voucher, obs.rejected_window, obs.rejected_epoch, obs.edge_cases, obs.wrap_region, kind as u64, (base >> 40), (d + 60_000).clamp(0, 70_000) as u64 / 500]));
                    ctx.sample(3, || case_json(idx, "random", format!("base={} local={:?} voucher={:?} accepted={}", base, local, kind, obs.accepted == 1)));
                }
            }
            Err(f) => ctx.violate(&["C14"], &f.sig, f.what, case_json(idx, "random", format!("base={} local={:?} voucher={:?}", base, local, kind))),
        }
        ctx.ops += 1;
        ctx.end_case(idx);
        if ctx.too_many_violations() {
            return;
        }
    }
    index = index.max(1 << 40);

    // (3) now(): the provider records the time it is given
    for r in 0..now_cases {
        let idx = index;
        index += 1;
        if !ctx.mine(idx) {
            continue;
        }
        let mut rng = Rng::for_case(ctx.args.seed, "vtime-now", r);
        // d = base - now_ms ; -2990 itself is ambiguous for a sub-millisecond clock
        let d: i128 = *rng.pick(&[-2_992i128, -2_991, -2_989, -2_988, -1, 0, 1, 59_898, 59_899, 59_900, 59_901, 59_902, 30_000, -1_000, 100_000, -100_000]);
        let kind = if rng.chance(2, 3) { VKind::Right } else { VKINDS[rng.usize_below(VKINDS.len())] };
        let provider_fails = rng.chance(1, 8);
        ctx.begin_case(idx, || case_json(idx, "now", format!("base-now={} voucher={:?} provider_fails={}", d, kind, provider_fails)));
        let mut seen: Option<OffsetDateTime> = None;
        let mut slow = false;
        let res = catch(|| {
            VouchedTime::now(|now: OffsetDateTime| {
                seen = Some(now);
                if r % 256 == 1 {
                    // a provider that takes its time (real ones do I/O)
                    std::thread::sleep(std::time::Duration::from_millis(3));
                    slow = true;
                }
                if provider_fails {
                    return Err(std::io::Error::new(std::io::ErrorKind::NotConnected, "harness provider failure"));
                }
                let now_ms = (now.unix_timestamp_nanos() / 1_000_000) as i128;
                let base = (now_ms + d) as u64;
                Ok((base, make_voucher(kind, base, 77)))
            })
        });
        ctx.ops += 1;
        let verdict: Result<(), Fail> = (|| {
            let r = match res {
                Err(p) => return Err(Fail { sig: format!("panic:{}", panic_sig(&p)), what: format!("VouchedTime::now panicked: {}", p) }),
                Ok(r) => r,
            };
            let now = seen.ok_or(Fail { sig: "provider-not-called".into(), what: "now() did not call the provider".into() })?;
            if provider_fails {
                return match r {
                    Err(e) if e.kind() == std::io::ErrorKind::NotConnected => Ok(()),
                    Err(e) => Err(Fail { sig: "provider-error-replaced".into(), what: format!("provider error was replaced by {:?}", e.kind()) }),
                    Ok(_) => Err(Fail { sig: "provider-error-swallowed".into(), what: "now() succeeded although the provider failed".into() }),
                };
            }
            let want = kind == VKind::Right && -d >= -BACK && -d <= FWD;
            match (r, want) {
                (Ok(vt), true) => {
                    let local = PrimitiveDateTime::new(now.date(), now.time());
                    if vt.get_local_time() != local {
                        return Err(Fail { sig: "now-local-time".into(), what: "now() does not report the clock value it handed to the provider".into() });
                    }
                    Ok(())
                }
                (Err(_), false) => Ok(()),
                (Ok(_), false) => Err(Fail { sig: "now-accepts".into(), what: format!("now() succeeded with base-now={} voucher={:?}", d, kind) }),
                (Err(e), true) => Err(Fail { sig: "now-rejects".into(), what: format!("now() failed ({}) with base-now={} and the right voucher", e, d) }),
            }
        })();
        // now_or_die: dies exactly when now() fails (one case in three).
        let verdict = verdict.and_then(|()| {
            if r % 3 != 0 {
                return Ok(());
            }
            let died = catch(|| {
                VouchedTime::now_or_die(|now: OffsetDateTime| {
                    if provider_fails {
                        return Err(std::io::Error::new(std::io::ErrorKind::NotConnected, "harness provider failure"));
                    }
                    let now_ms = (now.unix_timestamp_nanos() / 1_000_000) as i128;
                    let base = (now_ms + d) as u64;
                    Ok((base, make_voucher(kind, base, 77)))
                })
            })
            .is_err();
            let want = !provider_fails && kind == VKind::Right && -d >= -BACK && -d <= FWD;
            if died == want {
                return Err(Fail { sig: "now_or_die".into(), what: format!("now_or_die {} with base-now={} voucher={:?} provider_fails={}", if died { "panicked" } else { "returned a value" }, d, kind, provider_fails) });
            }
            ctx.feature("vtime.now_or_die_cases");
            Ok(())
        });
        match verdict {
            Ok(()) => {
                ctx.feature("vtime.now_cases");
                if slow {
                    ctx.feature("vtime.now_with_a_provider_that_takes_3ms");
                }
                if provider_fails {
                    ctx.feature("vtime.now_provider_error_propagated");
                }
                ctx.signature(mix(&[3, (d + 200_000) as u64, kind as u64, provider_fails as u64]));
            }
            Err(f) => ctx.violate(&["C14"], &f.sig, f.what, case_json(idx, "now", format!("base-now={} voucher={:?} provider_fails={}", d, kind, provider_fails))),
        }
        ctx.end_case(idx);
        if ctx.too_many_violations() {
            return;
        }
    }
}

fn record(ctx: &mut Ctx, obs: &Obs) {
    ctx.feature_n("vtime.accepted", obs.accepted);
    ctx.feature_n("vtime.rejected_bad_voucher", obs.rejected_voucher);
    ctx.feature_n("vtime.rejected_outside_window", obs.rejected_window);
    ctx.feature_n("vtime.rejected_before_epoch", obs.rejected_epoch);
    ctx.feature_n("vtime.window_or_epoch_edge_cases", obs.edge_cases);
    ctx.feature_n("vtime.base_within_70000_of_u64_max", obs.wrap_region);
    ctx.feature_n("vtime.new_or_die_compared_with_new", obs.or_die_checked);
}
