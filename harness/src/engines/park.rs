//! Engine `park` (C18): readers and try_update never wait for a writer.
//!
//! Fault enumeration over suspension points: through hook H3 a writer thread
//! is frozen at each of its instrumented steps in turn (before / after every
//! atomic access and lock operation, with and without the lock held),
//! optionally after completing some whole updates and optionally with a
//! second writer blocked behind it; then a solo thread runs snapshot /
//! try_update / get_base_time_unlocked to completion while the writer stays
//! frozen, and its own event stream is judged: it completed, how many steps
//! it took, which lock operations it performed.  "Would wait" is detected
//! without a clock: a blocking lock() requested by the solo thread while the
//! lock's holder is frozen is a deterministic event.

use std::cell::RefCell;
use std::sync::Arc;
use std::sync::Condvar;
use std::sync::Mutex;

use vouched_time::nfs_voucher;
use vouched_time::verif_sync;
use vouched_time::verif_sync::Op;
use vouched_time::AtomicBaseTime;

use crate::ctx::Ctx;
use crate::engines::vtime::voucher_bits;
use crate::engines::vtime::CRATE_PARAMS;
use crate::json::Json;
use crate::prng::mix;

#[derive(Clone, Copy, Debug, PartialEq, Eq)]
enum Role {
    Writer1,
    Writer2,
    Solo,
}

#[derive(Default)]
struct Ctl {
    /// events emitted so far by writer 1 during its *target* operation
    w1_events: usize,
    w1_counting: bool,
    freeze_at: Option<usize>,
    frozen: bool,
    release: bool,
    w1_done: bool,
    w2_at_lock: bool,
    lock_holder: Option<Role>,
    // solo pause
    solo_pause_at: Option<usize>,
    solo_paused: bool,
    solo_resume: bool,
    /// number of events writer 1 may still emit before freezing again (pause variant)
    w1_trace: Vec<(Op, bool)>,
}

static CTL: Mutex<Option<Ctl>> = Mutex::new(None);
static CV: Condvar = Condvar::new();

#[derive(Clone, Copy, Debug)]
struct SoloEv {
    op: Op,
    after: bool,
    object: usize,
    value: u64,
}

thread_local! {
    static ROLE: RefCell<Option<Role>> = const { RefCell::new(None) };
    static SOLO_LOG: RefCell<Vec<SoloEv>> = const { RefCell::new(Vec::new()) };
    static SOLO_MARK: RefCell<usize> = const { RefCell::new(usize::MAX) };
}

const WOULD_WAIT: &str = "WOULD-WAIT: blocking lock requested while the holder is frozen";
const TOO_MANY_STEPS: &str = "TOO-MANY-STEPS: the solo call exceeded the step limit";
/// instrumented events (before + after) the solo call may emit: 8 * (1 + c)
/// atomic steps with c <= 3 completing updates is 64 events; 4 000 is far
/// beyond anything a bounded retry loop produces.
const STEP_LIMIT: usize = 4_000;
/// Wall-clock safety net only (its firing is inconclusive, never a verdict);
/// under Miri on a loaded machine eighty instrumented calls take a while.
const WATCHDOG_SECS: u64 = if cfg!(miri) { 120 } else { 6 };

fn with_ctl<T>(f: impl FnOnce(&mut Ctl) -> T) -> T {
    let mut g = CTL.lock().unwrap_or_else(|e| e.into_inner());
    f(g.as_mut().expect("ctl installed"))
}

fn callback(ev: &verif_sync::Event) {
    let role = ROLE.with(|r| *r.borrow());
    let Some(role) = role else {
        return;
    };
    match role {
        Role::Writer1 => {
            let mut g = CTL.lock().unwrap_or_else(|e| e.into_inner());
            {
                let c = g.as_mut().expect("ctl");
                if ev.after {
                    match ev.op {
                        Op::Lock => c.lock_holder = Some(Role::Writer1),
                        Op::TryLock if ev.value == 1 => c.lock_holder = Some(Role::Writer1),
                        Op::Unlock => c.lock_holder = None,
                        _ => {}
                    }
                }
                if !c.w1_counting {
                    return;
                }
                let idx = c.w1_events;
                c.w1_events += 1;
                if c.w1_trace.len() < 64 {
                    c.w1_trace.push((ev.op, ev.after));
                }
                if c.freeze_at != Some(idx) || c.release {
                    return;
                }
                c.frozen = true;
            }
            CV.notify_all();
            loop {
                let c = g.as_mut().expect("ctl");
                if c.release {
                    c.frozen = false;
                    break;
                }
                g = CV.wait(g).unwrap_or_else(|e| e.into_inner());
            }
            drop(g);
            CV.notify_all();
        }
        Role::Writer2 => {
            let mut g = CTL.lock().unwrap_or_else(|e| e.into_inner());
            let c = g.as_mut().expect("ctl");
            if ev.after {
                match ev.op {
                    Op::Lock => c.lock_holder = Some(Role::Writer2),
                    Op::TryLock if ev.value == 1 => c.lock_holder = Some(Role::Writer2),
                    Op::Unlock => c.lock_holder = None,
                    _ => {}
                }
            } else if ev.op == Op::Lock {
                c.w2_at_lock = true;
                drop(g);
                CV.notify_all();
            }
        }
        Role::Solo => {
            let idx = SOLO_LOG.with(|l| {
                let mut l = l.borrow_mut();
                l.push(SoloEv { op: ev.op, after: ev.after, object: ev.object, value: ev.value });
                l.len() - 1
            });
            // A logical (not wall-clock) bound on the solo thread's own steps:
            // the property promises a bounded number of steps, and the largest
            // legitimate count in any scenario is a few dozen events.
            if idx > STEP_LIMIT {
                panic!("{}", TOO_MANY_STEPS);
            }
            let mut g = CTL.lock().unwrap_or_else(|e| e.into_inner());
            let c = g.as_mut().expect("ctl");
            if ev.op == Op::Lock && !ev.after && c.lock_holder.is_some() && (c.frozen || c.w2_at_lock || c.lock_holder == Some(Role::Solo)) {
                // (a blocking lock requested while the calling thread itself
                // holds the lock waits for ever, too)
                drop(g);
                panic!("{}", WOULD_WAIT);
            }
            if ev.after {
                match ev.op {
                    Op::Lock => c.lock_holder = Some(Role::Solo),
                    Op::TryLock if ev.value == 1 => c.lock_holder = Some(Role::Solo),
                    Op::Unlock => c.lock_holder = None,
                    _ => {}
                }
            }
            if c.solo_pause_at == Some(idx) && !c.solo_resume {
                c.solo_paused = true;
                drop(g);
                CV.notify_all();
                let mut g = CTL.lock().unwrap_or_else(|e| e.into_inner());
                loop {
                    if g.as_ref().expect("ctl").solo_resume {
                        break;
                    }
                    g = CV.wait(g).unwrap_or_else(|e| e.into_inner());
                }
            }
        }
    }
}

#[derive(Clone, Copy, Debug, PartialEq, Eq)]
enum WriterOp {
    Update,
    TryUpdate,
}

#[derive(Clone, Copy, Debug, PartialEq, Eq)]
enum SoloOp {
    Snapshot,
    TryUpdate,
}

#[derive(Clone, Debug)]
struct Scenario {
    target_static: bool,
    writer_op: WriterOp,
    pre_complete: usize,
    freeze_at: usize,
    second_writer: bool,
    solo_op: SoloOp,
    /// pause the solo thread at its event j and let the writer complete this many more updates
    solo_pause: Option<(usize, usize)>,
    /// SoloOp::TryUpdate: this many calls in a row (increasing bases)
    repeat: usize,
    /// the lock was poisoned beforehand (an update with a mismatched voucher
    /// panicked inside the critical section); no writer is active
    poisoned: bool,
}

fn scenario_json(idx: u64, s: &Scenario) -> Json {
    Json::obj()
        .with("kind", Json::s("park"))
        .with("index", Json::U(idx))
        .with("object", Json::s(if s.target_static { "nfs_voucher static base time" } else { "private AtomicBaseTime" }))
        .with("writer_op", Json::Str(format!("{:?}", s.writer_op)))
        .with("writer_updates_completed_before", Json::U(s.pre_complete as u64))
        .with("writer_frozen_at_event", Json::U(s.freeze_at as u64))
        .with("second_writer_blocked_behind", Json::Bool(s.second_writer))
        .with("solo_op", Json::Str(format!("{:?}", s.solo_op)))
        .with("solo_calls_in_a_row", Json::U(s.repeat as u64))
        .with("lock_poisoned_beforehand", Json::Bool(s.poisoned))
        .with("solo_paused_at_event_and_writer_updates_meanwhile", match s.solo_pause {
            None => Json::Null,
            Some((j, c)) => Json::Arr(vec![Json::U(j as u64), Json::U(c as u64)]),
        })
}

struct Outcome {
    solo_events: Vec<SoloEv>,
    solo_result: Result<(u64, u64, bool, bool), String>, // (base, voucher bits, every try_update returned true, some try_update returned true)
    writer_frozen: bool,
    writer_trace: Vec<(Op, bool)>,
    lock_held_when_frozen: bool,
    writer_events_total: usize,
}

pub struct Fail {
    pub sig: String,
    pub what: String,
    pub inconclusive: bool,
}

fn wait_until(pred: impl Fn(&Ctl) -> bool, what: &str) -> Result<(), Fail> {
    let mut g = CTL.lock().unwrap_or_else(|e| e.into_inner());
    let deadline = std::time::Instant::now() + std::time::Duration::from_secs(WATCHDOG_SECS);
    loop {
        if pred(g.as_ref().expect("ctl")) {
            return Ok(());
        }
        let now = std::time::Instant::now();
        if now >= deadline {
            return Err(Fail { sig: "watchdog".into(), what: format!("harness watchdog: {} did not happen within the watchdog time", what), inconclusive: true });
        }
        let (ng, _) = CV.wait_timeout(g, deadline - now).unwrap_or_else(|e| e.into_inner());
        g = ng;
    }
}

/// Base values: writer 1 uses 10_000 + 10*i, writer 2 uses 900_000, the solo thread 5_000_000.
fn w1_base(i: usize, salt: u64) -> u64 {
    salt + 10_000 + 10 * i as u64
}

fn run_scenario(s: &Scenario, salt: u64) -> Result<Outcome, Fail> {
    *CTL.lock().unwrap_or_else(|e| e.into_inner()) = Some(Ctl::default());
    let abt: Arc<AtomicBaseTime> = Arc::new(AtomicBaseTime::new());
    let total_updates = if s.poisoned { 0 } else { s.pre_complete + 1 + s.solo_pause.map(|p| p.1).unwrap_or(0) };
    if s.poisoned {
        // Poison the writer lock: an update whose voucher does not match dies
        // inside the critical section (no role: not instrumented, not frozen).
        let abt0 = abt.clone();
        let b = salt + 7_000;
        let _ = std::thread::spawn(move || {
            let _ = std::panic::catch_unwind(std::panic::AssertUnwindSafe(|| abt0.update((b, CRATE_PARAMS.vouch(b + 1)))));
        })
        .join();
    }

    // Writer 1: `pre_complete` whole updates, then the target update (frozen at
    // event `freeze_at`), then (pause variant) further updates.
    let s1 = s.clone();
    let abt1 = abt.clone();
    let w1 = std::thread::spawn(move || {
        ROLE.with(|r| *r.borrow_mut() = Some(Role::Writer1));
        for i in 0..total_updates {
            if i == s1.pre_complete {
                with_ctl(|c| {
                    c.w1_counting = true;
                    c.w1_events = 0;
                    c.freeze_at = Some(s1.freeze_at);
                });
            }
            let b = w1_base(i, salt);
            let v = CRATE_PARAMS.vouch(b);
            match s1.writer_op {
                WriterOp::Update => abt1.update((b, v)),
                WriterOp::TryUpdate => {
                    let _ = abt1.try_update((b, v));
                }
            }
            if i == s1.pre_complete {
                with_ctl(|c| {
                    c.w1_counting = false;
                });
            }
            if i > s1.pre_complete {
                // pause variant: after each extra update, let the main thread look
                CV.notify_all();
            }
        }
        with_ctl(|c| c.w1_done = true);
        CV.notify_all();
    });

    wait_until(|c| c.frozen || c.w1_done, "writer reaching its freeze point")?;
    let (frozen, lock_held, trace, events_total) = with_ctl(|c| (c.frozen, c.lock_holder == Some(Role::Writer1), c.w1_trace.clone(), c.w1_events));

    // Optional second writer, blocked behind the frozen one (only meaningful
    // when the lock is held).
    let w2 = if s.second_writer && frozen && lock_held {
        let abt2 = abt.clone();
        let h = std::thread::spawn(move || {
            ROLE.with(|r| *r.borrow_mut() = Some(Role::Writer2));
            let b = salt + 900_000;
            abt2.update((b, CRATE_PARAMS.vouch(b)));
        });
        wait_until(|c| c.w2_at_lock, "second writer reaching the lock")?;
        // give it a moment to actually block in the real mutex
        std::thread::sleep(std::time::Duration::from_millis(2));
        Some(h)
    } else {
        None
    };

    // Solo thread.
    if let Some((j, _)) = s.solo_pause {
        with_ctl(|c| c.solo_pause_at = Some(j));
    }
    let abt_s = abt.clone();
    let solo_op = s.solo_op;
    let repeat = s.repeat;
    let (tx, rx) = std::sync::mpsc::channel();
    let solo = std::thread::spawn(move || {
        ROLE.with(|r| *r.borrow_mut() = Some(Role::Solo));
        SOLO_LOG.with(|l| l.borrow_mut().clear());
        SOLO_MARK.with(|m| *m.borrow_mut() = usize::MAX);
        let r = std::panic::catch_unwind(std::panic::AssertUnwindSafe(|| match solo_op {
            SoloOp::Snapshot => {
                let (b, v) = abt_s.snapshot();
                (b, voucher_bits(v), true, true)
            }
            SoloOp::TryUpdate => {
                let mut all = true;
                let mut any = false;
                for j in 0..repeat as u64 {
                    let b = salt + 5_000_000 + j;
                    let ok = abt_s.try_update((b, CRATE_PARAMS.vouch(b)));
                    all &= ok;
                    any |= ok;
                }
                // The follow-up snapshot stays instrumented (a blocking lock
                // against the frozen holder must still be a deterministic
                // event, not a hang), but only the events up to this mark
                // belong to the judged try_update call.
                SOLO_MARK.with(|m| *m.borrow_mut() = SOLO_LOG.with(|l| l.borrow().len()));
                let (sb, sv) = abt_s.snapshot();
                (sb, voucher_bits(sv), all, any)
            }
        }));
        ROLE.with(|r| *r.borrow_mut() = None);
        let mark = SOLO_MARK.with(|m| *m.borrow());
        let log: Vec<SoloEv> = SOLO_LOG.with(|l| l.borrow().iter().take(mark).copied().collect());
        let r = r.map_err(|_| crate::ctx::take_last_panic());
        let _ = tx.send((r, log));
    });

    // Pause variant: while the solo thread is parked mid-read, release the
    // writer so that it completes the frozen update and `c` more, then resume.
    if s.solo_pause.is_some() {
        // The solo thread may finish before reaching event j.
        let deadline = std::time::Instant::now() + std::time::Duration::from_secs(WATCHDOG_SECS);
        loop {
            let (paused, _) = with_ctl(|c| (c.solo_paused, c.solo_resume));
            if paused || solo.is_finished() {
                break;
            }
            if std::time::Instant::now() > deadline {
                return Err(Fail { sig: "watchdog".into(), what: "harness watchdog: solo thread neither paused nor finished".into(), inconclusive: true });
            }
            std::thread::sleep(std::time::Duration::from_micros(200));
        }
        with_ctl(|c| c.release = true);
        CV.notify_all();
        wait_until(|c| c.w1_done, "writer finishing its updates")?;
        with_ctl(|c| c.solo_resume = true);
        CV.notify_all();
    }

    // The solo thread must complete on its own while the writer is frozen.
    let got = rx.recv_timeout(std::time::Duration::from_secs(WATCHDOG_SECS));
    // Now release everything.
    with_ctl(|c| {
        c.release = true;
        c.solo_resume = true;
    });
    CV.notify_all();
    let (solo_result, solo_events) = match got {
        Ok((r, log)) => (r, log),
        Err(_) => {
            // Unblock and report: an un-instrumented wait is inconclusive, not a verdict.
            let _ = w1.join();
            if let Some(h) = w2 {
                let _ = h.join();
            }
            return Err(Fail { sig: "watchdog".into(), what: "solo thread did not complete within the watchdog time while the writer was frozen (no instrumented blocking lock was requested)".into(), inconclusive: true });
        }
    };
    let _ = solo.join();
    let _ = w1.join();
    if let Some(h) = w2 {
        let _ = h.join();
    }
    Ok(Outcome { solo_events, solo_result, writer_frozen: frozen, writer_trace: trace, lock_held_when_frozen: lock_held, writer_events_total: events_total })
}

fn judge(s: &Scenario, o: &Outcome, salt: u64) -> Result<(), Fail> {
    let v = |sig: &str, what: String| Fail { sig: sig.to_string(), what, inconclusive: false };
    let (base, bits, try_ok, try_any) = match &o.solo_result {
        Err(p) if p.contains("WOULD-WAIT") => {
            return Err(v("would-wait", format!("{:?} requested a blocking lock that cannot be granted (its holder is suspended, or is the calling thread itself): it would wait", s.solo_op)));
        }
        Err(p) if p.contains("TOO-MANY-STEPS") => {
            return Err(v("unbounded-steps", format!("{:?} performed more than {} instrumented steps without completing (it spins instead of finishing in a bounded number of its own steps)", s.solo_op, STEP_LIMIT)));
        }
        Err(p) => return Err(v("solo-panic", format!("{:?} panicked: {}", s.solo_op, p))),
        Ok(r) => *r,
    };
    // events of the judged call only (for SoloOp::TryUpdate the follow-up snapshot runs without a role)
    let evs = &o.solo_events;
    let lock_ops = evs.iter().filter(|e| !e.after && e.op == Op::Lock).count();
    let try_lock_ops = evs.iter().filter(|e| !e.after && e.op == Op::TryLock).count();
    let atomic_steps = evs.iter().filter(|e| e.after && matches!(e.op, Op::Load | Op::Store)).count();
    let completed_during = s.solo_pause.map(|p| p.1 + 1).unwrap_or(0);
    match s.solo_op {
        SoloOp::Snapshot => {
            if lock_ops + try_lock_ops != 0 {
                return Err(v("reader-locks", format!("snapshot performed {} lock operation(s)", lock_ops + try_lock_ops)));
            }
        }
        SoloOp::TryUpdate => {
            if lock_ops != 0 {
                return Err(v("try_update-blocking-lock", "try_update performed a blocking lock()".into()));
            }
            if try_lock_ops != s.repeat {
                return Err(v("try_update-lock-attempts", format!("{} try_update call(s) performed {} non-blocking lock attempts (expected exactly one each)", s.repeat, try_lock_ops)));
            }
        }
    }
    let bound = 8 * (1 + completed_during) * s.repeat;
    if atomic_steps > bound {
        return Err(v("too-many-steps", format!("{:?} took {} atomic steps with {} update(s) completing during the call (bound {})", s.solo_op, atomic_steps, completed_during, bound)));
    }
    // retried only if the sequence word it first read changed (a write completed)
    if s.solo_op == SoloOp::Snapshot {
        let loads: Vec<&SoloEv> = evs.iter().filter(|e| e.after && e.op == Op::Load).collect();
        if let Some(first) = loads.first() {
            let seq_reads: Vec<u64> = loads.iter().filter(|e| e.object == first.object).map(|e| e.value).collect();
            if seq_reads.len() > 2 && seq_reads.iter().all(|x| *x == seq_reads[0]) {
                return Err(v("retry-without-write", format!("snapshot re-read the sequence word {} times although it never changed", seq_reads.len())));
            }
        }
    }
    // returned pair: untorn, a member, recent
    if bits != voucher_bits(CRATE_PARAMS.vouch(base)) {
        return Err(Fail { sig: "torn".into(), what: format!("returned base {} with a voucher for another value", base), inconclusive: false });
    }
    let total_updates = s.pre_complete + 1 + s.solo_pause.map(|p| p.1).unwrap_or(0);
    let mut members: Vec<u64> = vec![0, salt + 900_000, salt + 7_000];
    for j in 0..s.repeat as u64 {
        members.push(salt + 5_000_000 + j);
    }
    for i in 0..total_updates {
        members.push(w1_base(i, salt));
    }
    if !members.contains(&base) {
        return Err(v("foreign-pair", format!("returned base {} that nobody passed to an update", base)));
    }
    if s.pre_complete > 0 && s.writer_op == WriterOp::Update && !s.poisoned {
        let floor = w1_base(s.pre_complete - 1, salt);
        if base < floor {
            return Err(v("stale-completed", format!("returned base {} although an update to {} had completed before the call began", base, floor)));
        }
    }
    if s.solo_op == SoloOp::TryUpdate {
        // the lock is held iff the writer froze while holding it (or a second writer sits behind it)
        let held = o.writer_frozen && o.lock_held_when_frozen && s.solo_pause.is_none();
        if held && try_any {
            return Err(v("try_update-true-while-locked", "try_update returned true while another writer held the lock".into()));
        }
        if !held && s.solo_pause.is_none() && !try_ok && !s.poisoned {
            return Err(v("try_update-false-while-free", "try_update returned false although no writer held the lock and its base was the newest".into()));
        }
        if try_ok && base != salt + 5_000_000 + s.repeat as u64 - 1 {
            return Err(v("try_update-lost", format!("try_update returned true but a snapshot right after returned base {}", base)));
        }
    }
    Ok(())
}

/// Scenarios on the process-wide static behind nfs_voucher: the writer is
/// observe_file_time (try_update) or get_base_time far in the future
/// (blocking update); the solo call is get_base_time_unlocked.
fn run_static_scenario(freeze_at: usize, blocking: bool, solo_observes: bool, dir: &std::path::Path, round: u64) -> Result<(bool, usize, usize, usize, bool), Fail> {
    use std::os::unix::fs::PermissionsExt;
    *CTL.lock().unwrap_or_else(|e| e.into_inner()) = Some(Ctl::default());
    let path = dir.join("trusted.file");
    let file = std::fs::File::options().read(true).write(true).create(true).truncate(false).open(&path).map_err(|e| Fail { sig: "io".into(), what: e.to_string(), inconclusive: true })?;
    // bump the change-time so that the update really stores
    std::thread::sleep(std::time::Duration::from_millis(3));
    std::fs::set_permissions(&path, std::fs::Permissions::from_mode(if round % 2 == 0 { 0o600 } else { 0o640 })).map_err(|e| Fail { sig: "io".into(), what: e.to_string(), inconclusive: true })?;
    let w = std::thread::spawn(move || {
        ROLE.with(|r| *r.borrow_mut() = Some(Role::Writer1));
        with_ctl(|c| {
            c.w1_counting = true;
            c.freeze_at = Some(freeze_at);
        });
        if blocking {
            let far = time::OffsetDateTime::now_utc() + time::Duration::hours(1);
            let _ = nfs_voucher::get_base_time(far);
        } else {
            let _ = nfs_voucher::observe_file_time(&file);
        }
        with_ctl(|c| {
            c.w1_counting = false;
            c.w1_done = true;
        });
        CV.notify_all();
    });
    wait_until(|c| c.frozen || c.w1_done, "static writer reaching its freeze point")?;
    let (frozen, lock_held, events_total) = with_ctl(|c| (c.frozen, c.lock_holder == Some(Role::Writer1), c.w1_events));
    let (tx, rx) = std::sync::mpsc::channel();
    let solo_path = dir.join("trusted.file");
    let solo = std::thread::spawn(move || {
        ROLE.with(|r| *r.borrow_mut() = Some(Role::Solo));
        SOLO_LOG.with(|l| l.borrow_mut().clear());
        let r = std::panic::catch_unwind(|| {
            if solo_observes {
                // the module-level try_update path: must not wait either
                match std::fs::File::open(&solo_path) {
                    Ok(f) => match nfs_voucher::observe_file_time(&f) {
                        Ok((_, Some(pair))) => Ok(pair),
                        Ok((_, None)) => Err(std::io::Error::other("observe_file_time reported nothing for a trusted device")),
                        Err(e) => Err(e),
                    },
                    Err(e) => Err(e),
                }
            } else {
                nfs_voucher::get_base_time_unlocked(time::OffsetDateTime::now_utc())
            }
        });
        ROLE.with(|r| *r.borrow_mut() = None);
        let log = SOLO_LOG.with(|l| l.borrow().clone());
        let _ = tx.send((r.map_err(|_| crate::ctx::take_last_panic()), log));
    });
    let got = rx.recv_timeout(std::time::Duration::from_secs(WATCHDOG_SECS));
    with_ctl(|c| c.release = true);
    CV.notify_all();
    let _ = w.join();
    let (r, log) = match got {
        Ok(x) => x,
        Err(_) => return Err(Fail { sig: "watchdog".into(), what: "get_base_time_unlocked did not complete within the watchdog time while the writer was frozen".into(), inconclusive: true }),
    };
    let _ = solo.join();
    let v = |sig: &str, what: String| Fail { sig: sig.to_string(), what, inconclusive: false };
    let pair = match r {
        Err(p) if p.contains("WOULD-WAIT") => return Err(v("would-wait", "the solo call requested a blocking lock while the lock's holder was suspended".into())),
        Err(p) if p.contains("TOO-MANY-STEPS") => return Err(v("unbounded-steps", "the solo call on the static base time exceeded the step limit without completing".into())),
        Err(p) => return Err(v("solo-panic", format!("get_base_time_unlocked panicked: {}", p))),
        Ok(Err(e)) => return Err(v("unlocked-failed", format!("get_base_time_unlocked failed: {}", e))),
        Ok(Ok(p)) => p,
    };
    let blocking_locks = log.iter().filter(|e| !e.after && e.op == Op::Lock).count();
    let try_locks = log.iter().filter(|e| !e.after && e.op == Op::TryLock).count();
    let locks = blocking_locks + try_locks;
    let steps = log.iter().filter(|e| e.after && matches!(e.op, Op::Load | Op::Store)).count();
    if solo_observes {
        if blocking_locks != 0 || try_locks != 1 {
            return Err(v("try_update-lock-attempts", format!("observe_file_time performed {} blocking lock(s) and {} non-blocking attempt(s) (expected 0 and 1)", blocking_locks, try_locks)));
        }
        if voucher_bits(pair.1) != voucher_bits(CRATE_PARAMS.vouch(pair.0)) {
            return Err(v("torn", "observe_file_time returned a pair whose voucher does not match".into()));
        }
        return Ok((frozen, events_total, steps, locks, lock_held));
    }
    if locks != 0 {
        return Err(v("reader-locks", format!("get_base_time_unlocked performed {} lock operation(s)", locks)));
    }
    if steps > 8 {
        return Err(v("too-many-steps", format!("get_base_time_unlocked took {} atomic steps with the writer frozen (bound 8)", steps)));
    }
    if voucher_bits(pair.1) != voucher_bits(CRATE_PARAMS.vouch(pair.0)) {
        return Err(v("torn", "get_base_time_unlocked returned a torn pair".into()));
    }
    Ok((frozen, events_total, steps, locks, lock_held))
}

pub fn run(ctx: &mut Ctx) {
    let thorough = ctx.args.thorough();
    let max_freeze = ctx.args.get_u64("max-freeze", 20) as usize;
    let repeats = ctx.args.get_u64("repeats", if thorough { 8 } else { 1 });
    verif_sync::set_callback(Some(Box::new(callback)));

    // Enumerate scenarios.
    let mut scenarios: Vec<Scenario> = Vec::new();
    for writer_op in [WriterOp::Update, WriterOp::TryUpdate] {
        for pre in 0..=3usize {
            for freeze_at in 0..max_freeze {
                for solo_op in [SoloOp::Snapshot, SoloOp::TryUpdate] {
                    for second in [false, true] {
                        if second && (writer_op == WriterOp::TryUpdate || pre > 1) {
                            continue;
                        }
                        scenarios.push(Scenario { target_static: false, writer_op, pre_complete: pre, freeze_at, second_writer: second, solo_op, solo_pause: None, repeat: 1, poisoned: false });
                    }
                }
            }
        }
    }
    // many try_update calls in a row against one frozen writer (accumulated
    // per-object state: counters of lost races, back-off, ...)
    let many = ctx.args.get_u64("try-repeat", if cfg!(miri) { 36 } else { 80 }) as usize;
    for writer_op in [WriterOp::Update, WriterOp::TryUpdate] {
        for freeze_at in 0..max_freeze {
            scenarios.push(Scenario { target_static: false, writer_op, pre_complete: 1, freeze_at, second_writer: false, solo_op: SoloOp::TryUpdate, solo_pause: None, repeat: many, poisoned: false });
        }
    }
    // a poisoned writer lock and nobody else around: snapshot, try_update and
    // several try_updates in a row must still complete on their own
    for (solo_op, repeat) in [(SoloOp::Snapshot, 1usize), (SoloOp::TryUpdate, 1), (SoloOp::TryUpdate, 3), (SoloOp::TryUpdate, many)] {
        scenarios.push(Scenario { target_static: false, writer_op: WriterOp::Update, pre_complete: 0, freeze_at: usize::MAX, second_writer: false, solo_op, solo_pause: None, repeat, poisoned: true });
    }
    // pause variants: solo parked at each of its first 8 events while the writer completes c updates
    for j in 0..8usize {
        for c in 0..=2usize {
            for freeze_at in [0usize, 7, 9, 11, 13] {
                scenarios.push(Scenario { target_static: false, writer_op: WriterOp::Update, pre_complete: 1, freeze_at, second_writer: false, solo_op: SoloOp::Snapshot, solo_pause: Some((j, c)), repeat: 1, poisoned: false });
            }
        }
    }

    let mut index = 0u64;
    for rep in 0..repeats {
        for s in scenarios.iter() {
            let idx = index;
            index += 1;
            if !ctx.mine(idx) {
                continue;
            }
            let salt = (rep + 1) * 100_000_000;
            ctx.begin_case(idx, || scenario_json(idx, s));
            let res = run_scenario(s, salt).and_then(|o| judge(s, &o, salt).map(|_| o));
            match res {
                Err(f) if f.inconclusive => {
                    ctx.inconclusive(format!("{} ({})", f.what, scenario_json(idx, s).render()));
                    if ctx.inconclusive.len() >= 3 {
                        // do not burn minutes on watchdogs: the run is inconclusive anyway
                        verif_sync::set_callback(None);
                        return;
                    }
                }
                Err(f) => ctx.violate(&["C18"], &f.sig, f.what, scenario_json(idx, s)),
                Ok(o) => {
                    let steps = o.solo_events.iter().filter(|e| e.after && matches!(e.op, Op::Load | Op::Store)).count() as u64;
                    ctx.maximum("park.max_solo_atomic_steps_no_pause", if s.solo_pause.is_none() { steps } else { 0 });
                    ctx.maximum("park.max_solo_atomic_steps_with_pause", if s.solo_pause.is_some() { steps } else { 0 });
                    ctx.maximum("park.writer_events_per_update", o.writer_events_total as u64);
                    ctx.feature("park.scenarios_judged");
                    if o.writer_frozen {
                        ctx.feature("park.writer_frozen");
                        if o.lock_held_when_frozen {
                            ctx.feature("park.writer_frozen_holding_lock");
                        } else {
                            ctx.feature("park.writer_frozen_without_lock");
                        }
                        if let Some((op, after)) = o.writer_trace.get(s.freeze_at) {
                            ctx.feature(&format!("park.frozen_{}_{:?}", if *after { "after" } else { "before" }, op));
                        }
                    } else {
                        ctx.feature("park.writer_finished_before_freeze_point");
                    }
                    if s.second_writer && o.writer_frozen && o.lock_held_when_frozen {
                        ctx.feature("park.second_writer_blocked");
                    }
                    if s.poisoned {
                        ctx.feature("park.solo_call_on_a_poisoned_lock");
                    }
                    if s.solo_pause.is_some() {
                        ctx.feature("park.solo_paused_mid_read");
                        if steps > 4 {
                            ctx.feature("park.solo_retried_after_writes_completed");
                        }
                    }
                    if s.solo_op == SoloOp::TryUpdate {
                        if let Ok((_, _, ok, _)) = o.solo_result {
                            ctx.feature(if ok { "park.try_update_true" } else { "park.try_update_false_lock_held" });
                            if s.repeat > 1 {
                                ctx.feature(if ok { "park.many_try_updates_in_a_row_lock_free" } else { "park.many_try_updates_in_a_row_lock_held" });
                            }
                        }
                    }
                    ctx.ops += o.solo_events.len() as u64;
                    if o.writer_frozen || s.solo_pause.is_some() || s.poisoned {
                        ctx.signature(mix(&[s.writer_op as u64, s.pre_complete as u64, s.freeze_at as u64, s.second_writer as u64, s.solo_op as u64, s.solo_pause.map(|p| (p.0 * 8 + p.1 + 1) as u64).unwrap_or(0), s.repeat as u64, s.poisoned as u64]));
                    }
                    if idx % 97 == 0 {
                        ctx.sample(3, || scenario_json(idx, s).with("solo_atomic_steps", Json::U(steps)).with("writer_was_frozen", Json::Bool(o.writer_frozen)));
                    }
                }
            }
            ctx.end_case(idx);
            if ctx.too_many_violations() {
                verif_sync::set_callback(None);
                return;
            }
        }
    }
    if ctx.args.only.is_none() {
        ctx.exhaustive.insert(
            format!("writer (update | try_update) frozen at each of its first {} instrumented events x 0..3 completed updates before x solo (snapshot | try_update) x optional second writer; plus solo parked at each of its first 8 events while the writer completes 0..2 updates", max_freeze),
            scenarios.len() as u64,
        );
    }

    // Static object behind nfs_voucher (shard 0 only: the state is process-global).
    if ctx.args.shard == 0 && ctx.args.only.is_none() && ctx.args.get_u64("static", 1) == 1 {
        let dir = crate::ctx::scratch_dir().join(format!("wpmon-park-{}", std::process::id()));
        let _ = std::fs::create_dir_all(&dir);
        let trusted = dir.join("trusted.file");
        // establishing trust runs with no role set, so it is not frozen
        match nfs_voucher::add_trusted_path(trusted.clone()) {
            Err(e) => ctx.inconclusive(format!("cannot establish a trusted path for the static scenarios: {}", e)),
            Ok(()) => {
                let mut round = 0u64;
                for (blocking, solo_observes) in [(false, false), (true, false), (true, true), (false, true)] {
                    for freeze_at in 0..24usize {
                        round += 1;
                        ctx.cases += 1;
                        match run_static_scenario(freeze_at, blocking, solo_observes, &dir, round) {
                            Err(f) if f.inconclusive => ctx.inconclusive(f.what),
                            Err(f) => ctx.violate(&["C18"], &f.sig, f.what, Json::obj().with("kind", Json::s("park-static")).with("index", Json::U(1 << 40)).with("writer", Json::s(if blocking { "get_base_time(now + 1h)" } else { "observe_file_time" })).with("freeze_at", Json::U(freeze_at as u64))),
                            Ok((frozen, _events, _steps, _locks, held)) => {
                                ctx.feature("park.static_scenarios_judged");
                                if frozen {
                                    ctx.feature("park.static_writer_frozen");
                                    if held {
                                        ctx.feature("park.static_writer_frozen_holding_lock");
                                    }
                                    if solo_observes {
                                        ctx.feature("park.static_solo_observe_file_time");
                                    }
                                    ctx.signature(mix(&[0x5747, blocking as u64, solo_observes as u64, freeze_at as u64]));
                                }
                            }
                        }
                    }
                }
            }
        }
        let _ = std::fs::remove_dir_all(&dir);
    }
    verif_sync::set_callback(None);
}
