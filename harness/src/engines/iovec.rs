//! Engine `iovec`: OwningIovec / ConsumingIovec / StableIovec / ByteArena /
//! AnchoredSlice histories over several live iovecs, each compared with its
//! own shadow pipe after every operation.  Decides C03, C04, C20 and feeds
//! C05 (exposed-slice monitor, held AnchoredSlices) and C10 (drop accounting).

use std::io::IoSlice;
use std::io::Read;
use std::num::NonZeroUsize;

use owning_iovec::AnchoredSlice;
use owning_iovec::Backref;
use owning_iovec::ByteArena;
use owning_iovec::OwningIovec;

use crate::ctx::catch;
use crate::ctx::panic_sig;
use crate::ctx::Ctx;
use crate::expose;
use crate::expose::ExposeStats;
use crate::expose::Owned;
use crate::gen;
use crate::json::Json;
use crate::prng::mix;
use crate::prng::Rng;
use crate::reader::benign_script;
use crate::reader::ScriptedReader;
use crate::reader::Tail;

#[derive(Clone, Debug, PartialEq, Eq)]
pub enum Op {
    New,
    NewFromSlices(Vec<usize>, bool),
    Collect(Vec<usize>),
    NewFromHeldArena,
    Push(usize),
    PushBorrowed(usize),
    PushCopy(usize),
    Extend(Vec<usize>),
    /// read_n(count) then push (variant: 0 plain, 1 trimmed, 2 split both pushed, 3 split and hold the right half)
    AnchoredPush(usize, u8),
    PushHeld,
    DropHeld,
    PushAnchorDefault,
    Register(usize),
    /// register this many placeholders back to back (lengths 1..3)
    RegisterMany(usize),
    Backfill(usize),
    /// backfill_or_panic with a source of the wrong size: must be rejected
    /// (documented panic); the placeholder then stays pending for good
    BackfillWrongSize(usize),
    Clear,
    Take,
    Clone,
    DropIovec,
    Flush,
    Ensure(usize),
    TakeArena,
    SwapArenaWithHeld,
    SwapArenaBetween,
    Consume(usize),
    Advance(usize),
    PopFront,
    Read(usize),
    ReadToEnd,
}

#[derive(Clone, Debug)]
pub struct Step {
    pub slot: usize,
    pub op: Op,
}

struct Pending {
    offset: usize,
    len: usize,
    /// None once a rejected backfill_or_panic call swallowed the Backref
    backref: Option<Backref>,
}

struct Shadow {
    /// Bytes appended since the last clear (placeholder bytes hold the value
    /// they were registered with until they are backfilled).
    bytes: Vec<u8>,
    handed: usize,
    pending: Vec<Pending>,
    observed_upto: usize,
}

impl Shadow {
    fn new() -> Shadow {
        Shadow { bytes: Vec::new(), handed: 0, pending: Vec::new(), observed_upto: 0 }
    }
    fn earliest_pending(&self) -> Option<usize> {
        self.pending.iter().map(|p| p.offset).min()
    }
}

struct Slot<'p> {
    iov: OwningIovec<'p>,
    shadow: Shadow,
    /// id of the slot this one was cloned / taken from (for features only)
    lineage: usize,
}

struct Held {
    slice: AnchoredSlice,
    content: Vec<u8>,
}

#[derive(Default)]
pub struct RunStats {
    merges: u64,
    merge_refused: u64,
    partial_consume: u64,
    arena_regrow: u64,
    anchored_pushes: u64,
    clear_with_data: u64,
    clones: u64,
    takes: u64,
    backfills: u64,
    backfill_out_of_order: u64,
    register_into_merged: u64,
    consume_while_pending: u64,
    blocked_by_pending: u64,
    held_pushed_elsewhere: u64,
    arena_swaps: u64,
    dropped_mid_history: u64,
    unblocked_all: u64,
    rejected_backfills: u64,
    clones_while_pending: u64,
    sink_pushes: u64,
    stable_views: u64,
    stable_consumptions: u64,
    max_slices: usize,
    big_advances: u64,
    max_pending: usize,
    max_live: usize,
    ops: u64,
    expose: ExposeStats,
}

pub struct Fail {
    pub props: Vec<&'static str>,
    pub sig: String,
    pub what: String,
}

fn fail(props: &[&'static str], sig: &str, what: String) -> Fail {
    Fail { props: props.to_vec(), sig: sig.to_string(), what }
}

struct Pool<'p> {
    data: &'p [u8],
    cursor: usize,
}

impl<'p> Pool<'p> {
    fn take(&mut self, len: usize) -> &'p [u8] {
        if self.cursor + len > self.data.len() {
            self.cursor = 0;
        }
        let s = &self.data[self.cursor..self.cursor + len];
        self.cursor += len;
        s
    }
}

fn first_diff(a: &[u8], b: &[u8]) -> usize {
    a.iter().zip(b.iter()).position(|(x, y)| x != y).unwrap_or(a.len().min(b.len()))
}

/// Observes one iovec and compares it with its shadow.
fn observe(slot_id: usize, slot: &mut Slot<'_>, owned: &Owned, rs: &mut RunStats, light: bool) -> Result<(), Fail> {
    let sh = &mut slot.shadow;
    let iov = &mut slot.iov;
    let rest = &sh.bytes[sh.handed..];
    let limit = sh.earliest_pending().map(|o| o - sh.handed).unwrap_or(rest.len());
    let pending = !sh.pending.is_empty();
    let p03: &[&'static str] = if pending { &["C03", "C04"] } else { &["C03"] };

    let total = iov.total_size();
    if total != rest.len() {
        return Err(fail(&["C03"], "total_size", format!("iovec #{}: total_size() = {}, appended - consumed = {}", slot_id, total, rest.len())));
    }
    if (iov.len() == 0) != iov.is_empty() {
        return Err(fail(&["C03"], "len-is_empty", format!("iovec #{}: len() = {} but is_empty() = {}", slot_id, iov.len(), iov.is_empty())));
    }
    if iov.is_empty() != (total == 0) {
        return Err(fail(&["C03"], "empty-vs-size", format!("iovec #{}: is_empty() = {} with total_size() = {}", slot_id, iov.is_empty(), total)));
    }
    if iov.has_pending_backrefs() != pending {
        return Err(fail(&["C04"], "has_pending", format!("iovec #{}: has_pending_backrefs() = {}, model {}", slot_id, !pending, pending)));
    }

    let prefix = iov.stable_prefix();
    expose::check_view(prefix, owned, &mut rs.expose).map_err(|e| fail(&["C05", "C03"], "expose", format!("iovec #{}: {}", slot_id, e)))?;
    let stable_len: usize = prefix.iter().map(|s| s.len()).sum();
    if stable_len > limit {
        return Err(fail(
            &["C04"],
            "stable-beyond-pending",
            format!("iovec #{}: stable prefix exposes {} bytes but the earliest pending placeholder starts {} bytes after the read position", slot_id, stable_len, limit),
        ));
    }
    if !pending && stable_len != rest.len() {
        return Err(fail(&["C03", "C04"], "stable-short", format!("iovec #{}: nothing pending but only {} of {} buffered bytes are consumable", slot_id, stable_len, rest.len())));
    }
    if pending && stable_len < limit {
        rs.blocked_by_pending += 1;
    }
    // byte-for-byte comparison of everything exposed (this is also what makes
    // ASan / Miri / the debug poison see every exposed byte)
    let mut off = 0usize;
    for (i, s) in prefix.iter().enumerate() {
        let want = &rest[off..off + s.len()];
        if &s[..] != want {
            let d = first_diff(s, want);
            return Err(fail(
                p03,
                "content",
                format!("iovec #{}: exposed slice #{} differs from the appended bytes at stream offset {} (got {:#04x}, want {:#04x})", slot_id, i, sh.handed + off + d, s[d], want[d]),
            ));
        }
        off += s.len();
    }
    sh.observed_upto = sh.observed_upto.max(sh.handed + stable_len);

    // accessor agreement
    match iov.front() {
        None => {
            if !prefix.is_empty() {
                return Err(fail(&["C03"], "front", format!("iovec #{}: front() is None with a non-empty stable prefix", slot_id)));
            }
        }
        Some(f) => {
            if prefix.is_empty() || f.as_ptr() != prefix[0].as_ptr() || f.len() != prefix[0].len() {
                return Err(fail(&["C03"], "front", format!("iovec #{}: front() is not the first stable slice", slot_id)));
            }
        }
    }
    match iov.iovs() {
        Ok(s) => {
            if pending {
                return Err(fail(&["C04"], "iovs-ok-pending", format!("iovec #{}: iovs() is Ok while a placeholder is pending", slot_id)));
            }
            if s.len() != prefix.len() {
                return Err(fail(&["C03"], "iovs-len", format!("iovec #{}: iovs() has {} slices, stable_prefix {}", slot_id, s.len(), prefix.len())));
            }
        }
        Err(s) => {
            if !pending {
                return Err(fail(&["C04"], "iovs-err-stable", format!("iovec #{}: iovs() is Err with nothing pending", slot_id)));
            }
            if s.len() != prefix.len() {
                return Err(fail(&["C03"], "iovs-len", format!("iovec #{}: iovs() has {} slices, stable_prefix {}", slot_id, s.len(), prefix.len())));
            }
        }
    }
    let iter_count = (&*iov).into_iter().count();
    if iter_count != prefix.len() {
        return Err(fail(&["C03"], "iter-len", format!("iovec #{}: iteration yields {} slices, stable_prefix {}", slot_id, iter_count, prefix.len())));
    }
    if !light {
        let flat = iov.flatten();
        let (ok, v) = match flat {
            Ok(v) => (true, v),
            Err(v) => (false, v),
        };
        if ok == pending {
            return Err(fail(&["C04"], "flatten-status", format!("iovec #{}: flatten() is {} with pending = {}", slot_id, if ok { "Ok" } else { "Err" }, pending)));
        }
        if v[..] != rest[..stable_len] {
            return Err(fail(p03, "flatten-content", format!("iovec #{}: flatten() differs from the stable bytes at {}", slot_id, first_diff(&v, rest))));
        }
        // (a destination that already holds some bytes, sometimes more than
        // the iovec has in total)
        let pre = 1 + (total * 7 + stable_len) % 5 + if total % 3 == 0 { total } else { 0 };
        let into = iov.flatten_into(vec![0x42; pre]);
        let (ok2, v2) = match into {
            Ok(v) => (true, v),
            Err(v) => (false, v),
        };
        if ok2 == pending {
            return Err(fail(&["C04"], "flatten_into-status", format!("iovec #{}: flatten_into(a {}-byte vector) is {} with pending = {}", slot_id, pre, if ok2 { "Ok" } else { "Err" }, pending)));
        }
        if v2.len() != pre + stable_len || v2[..pre].iter().any(|b| *b != 0x42) || v2[pre..] != rest[..stable_len] {
            return Err(fail(&["C03"], "flatten_into", format!("iovec #{}: flatten_into() did not append the stable bytes after the existing contents", slot_id)));
        }
    }
    {
        use std::convert::TryFrom;
        let via_from = owning_iovec::ConsumingIovec::from(&mut *iov);
        match owning_iovec::StableIovec::try_from(via_from) {
            Ok(st) => {
                if pending {
                    return Err(fail(&["C04"], "stable-try_from-ok-pending", format!("iovec #{}: StableIovec::try_from() is Ok while a placeholder is pending", slot_id)));
                }
                if st.iovs().len() != iter_count {
                    return Err(fail(&["C03"], "stable-iovs", format!("iovec #{}: StableIovec::iovs() slice count differs", slot_id)));
                }
            }
            Err(c) => {
                if !pending {
                    return Err(fail(&["C04"], "stable-try_from-err-stable", format!("iovec #{}: StableIovec::try_from() is Err with nothing pending", slot_id)));
                }
                if c.stable_prefix().len() != iter_count {
                    return Err(fail(&["C03"], "stable-iovs", format!("iovec #{}: the ConsumingIovec handed back by try_from sees another stable prefix", slot_id)));
                }
            }
        }
    }
    match iov.stable_consumer() {
        Ok(st) => {
            if pending {
                return Err(fail(&["C04"], "stable_consumer-ok-pending", format!("iovec #{}: stable_consumer() is Ok while a placeholder is pending", slot_id)));
            }
            if st.iovs().len() != iter_count {
                return Err(fail(&["C03"], "stable-iovs", format!("iovec #{}: StableIovec::iovs() slice count differs", slot_id)));
            }
            if !light && (rest.len() <= 2048 || rs.ops % 8 == 0) {
                if st.flatten()[..] != rest[..] {
                    return Err(fail(&["C03"], "stable-flatten", format!("iovec #{}: StableIovec::flatten() differs from the buffered bytes", slot_id)));
                }
                let v = st.flatten_into(vec![0x17, 0x18]);
                if v.len() != 2 + rest.len() || v[..2] != [0x17, 0x18] || v[2..] != rest[..] {
                    return Err(fail(&["C03"], "stable-flatten_into", format!("iovec #{}: StableIovec::flatten_into() did not append the buffered bytes", slot_id)));
                }
                rs.stable_views += 1;
            }
        }
        Err(_) => {
            if !pending {
                return Err(fail(&["C04"], "stable_consumer-err-stable", format!("iovec #{}: stable_consumer() is Err with nothing pending", slot_id)));
            }
        }
    }
    Ok(())
}

fn check_held(held: &[Held], owned: &Owned, rs: &mut RunStats) -> Result<(), Fail> {
    for (i, h) in held.iter().enumerate() {
        let s = h.slice.slice();
        expose::check_one(s, owned, &mut rs.expose).map_err(|e| fail(&["C05"], "expose-held", format!("held AnchoredSlice #{}: {}", i, e)))?;
        if s != &h.content[..] {
            return Err(fail(&["C05"], "held-content", format!("held AnchoredSlice #{} no longer holds the bytes that were read into it (offset {})", i, first_diff(s, &h.content))));
        }
    }
    Ok(())
}

pub fn step_json(s: &Step) -> Json {
    Json::Str(format!("#{} {:?}", s.slot, s.op))
}

fn ops_json(steps: &[Step]) -> Json {
    Json::Arr(steps.iter().map(step_json).collect())
}

const ATT: NonZeroUsize = NonZeroUsize::MAX;

/// Set while several threads run histories at once: the per-history
/// "counters are back to their starting values" check only makes sense when
/// nothing else allocates; the multi-threaded phase checks the counters once
/// every thread has been joined instead.
static CONCURRENT_PHASE: std::sync::atomic::AtomicBool = std::sync::atomic::AtomicBool::new(false);

/// Executes a history.  Slot numbers are taken modulo the number of live
/// iovecs, so that any sub-sequence of a history is itself a valid history
/// (used by the shrinker).
pub fn execute(steps: &[Step], pool_data: &[u8], drop_seed: u64, rs: &mut RunStats) -> Result<(), Fail> {
    let base_chunks = ByteArena::num_live_chunks();
    let base_bytes = ByteArena::num_live_bytes();
    let mut owned = Owned::new();
    owned.add(pool_data);
    {
        let mut pool = Pool { data: pool_data, cursor: 0 };
        let mut slots: Vec<Slot<'_>> = Vec::new();
        let mut held: Vec<Held> = Vec::new();
        let mut held_arenas: Vec<ByteArena> = Vec::new();
        let mut lineage_counter = 0usize;

        for (si, step) in steps.iter().enumerate() {
            rs.ops += 1;
            // Creation ops do not need a target.
            let creating = matches!(step.op, Op::New | Op::NewFromSlices(..) | Op::Collect(..) | Op::NewFromHeldArena);
            if slots.is_empty() && !creating {
                slots.push(Slot { iov: OwningIovec::new(), shadow: Shadow::new(), lineage: lineage_counter });
                lineage_counter += 1;
            }
            let t = if slots.is_empty() { 0 } else { step.slot % slots.len() };
            let chunks_before = ByteArena::num_live_chunks();
            let mut touched: Vec<usize> = vec![t];

            match &step.op {
                Op::New => {
                    slots.push(Slot { iov: OwningIovec::new(), shadow: Shadow::new(), lineage: lineage_counter });
                    lineage_counter += 1;
                    touched = vec![slots.len() - 1];
                }
                Op::NewFromSlices(lens, with_arena) => {
                    let mut v = Vec::new();
                    let mut sh = Shadow::new();
                    for l in lens {
                        let s = pool.take(*l);
                        sh.bytes.extend_from_slice(s);
                        v.push(IoSlice::new(s));
                    }
                    let arena = if *with_arena { Some(held_arenas.pop().unwrap_or_default()) } else { None };
                    slots.push(Slot { iov: OwningIovec::new_from_slices(v, arena), shadow: sh, lineage: lineage_counter });
                    lineage_counter += 1;
                    touched = vec![slots.len() - 1];
                }
                Op::Collect(lens) => {
                    let mut v = Vec::new();
                    let mut sh = Shadow::new();
                    for l in lens {
                        let s = pool.take(*l);
                        sh.bytes.extend_from_slice(s);
                        v.push(IoSlice::new(s));
                    }
                    let iov: OwningIovec<'_> = if si % 2 == 0 { v.iter().copied().collect() } else { v.into_iter().collect() };
                    slots.push(Slot { iov, shadow: sh, lineage: lineage_counter });
                    lineage_counter += 1;
                    touched = vec![slots.len() - 1];
                }
                Op::NewFromHeldArena => {
                    let arena = held_arenas.pop().unwrap_or_default();
                    slots.push(Slot { iov: OwningIovec::new_from_arena(arena), shadow: Shadow::new(), lineage: lineage_counter });
                    lineage_counter += 1;
                    touched = vec![slots.len() - 1];
                }
                Op::Push(len) | Op::PushBorrowed(len) | Op::PushCopy(len) => {
                    let slot = &mut slots[t];
                    let s = pool.take(*len);
                    let before = slot.iov.len();
                    // One call in four goes through the ZeroCopySink trait
                    // (directly, or through the blanket impl for `&mut T`).
                    match (&step.op, si % 4) {
                        (Op::Push(_), 3) => {
                            owning_iovec::ZeroCopySink::append_borrow(&mut slot.iov, s);
                            rs.sink_pushes += 1;
                        }
                        (Op::Push(_), 2) => {
                            let mut by_ref = &mut slot.iov;
                            owning_iovec::ZeroCopySink::append_borrow(&mut by_ref, s);
                            rs.sink_pushes += 1;
                        }
                        (Op::Push(_), _) => slot.iov.push(s),
                        (Op::PushBorrowed(_), _) => slot.iov.push_borrowed(s),
                        (_, 3) => {
                            owning_iovec::ZeroCopySink::append_copy(&mut slot.iov, s);
                            rs.sink_pushes += 1;
                        }
                        (_, 2) => {
                            let mut by_ref = &mut slot.iov;
                            owning_iovec::ZeroCopySink::append_copy(&mut by_ref, s);
                            rs.sink_pushes += 1;
                        }
                        _ => slot.iov.push_copy(s),
                    }
                    slot.shadow.bytes.extend_from_slice(s);
                    if *len > 0 {
                        if slot.iov.len() == before && before > 0 {
                            rs.merges += 1;
                        } else if matches!(step.op, Op::PushCopy(_)) && before > 0 {
                            rs.merge_refused += 1;
                        }
                    }
                }
                Op::Extend(lens) => {
                    let slot = &mut slots[t];
                    let mut v = Vec::new();
                    for l in lens {
                        let s = pool.take(*l);
                        slot.shadow.bytes.extend_from_slice(s);
                        v.push(IoSlice::new(s));
                    }
                    slot.iov.extend(v);
                }
                Op::AnchoredPush(count, variant) => {
                    let slot = &mut slots[t];
                    let src = pool.take(*count);
                    let mut rng = Rng::new(mix(&[drop_seed, si as u64]));
                    let script = benign_script(&mut rng, (*count).min(4), (*count).max(1));
                    let mut reader = ScriptedReader::new(src, script, Tail::ServeAll);
                    let a = slot
                        .iov
                        .arena()
                        .read_n(&mut reader, *count, ATT)
                        .map_err(|e| fail(&["C17"], "read_n-err", format!("read_n failed on a benign reader: {}", e)))?;
                    if a.slice() != src {
                        return Err(fail(&["C17", "C05"], "read_n-bytes", "read_n returned other bytes than the reader delivered".into()));
                    }
                    rs.anchored_pushes += 1;
                    let push_one = |slot: &mut Slot<'_>, a: AnchoredSlice, want: &[u8]| -> Result<(), Fail> {
                        if a.slice() != want {
                            return Err(fail(&["C05"], "anchored-bytes", "AnchoredSlice (after skip_prefix / drop_suffix / split_at) does not hold the expected bytes".into()));
                        }
                        // Exactly the pattern hcobs uses: slices first, anchor after.
                        let (_ios, slice, anchor) = unsafe { a.components() };
                        slot.iov.push_borrowed(slice);
                        slot.iov.push_anchor(anchor);
                        slot.shadow.bytes.extend_from_slice(want);
                        Ok(())
                    };
                    match variant % 6 {
                        0 => push_one(slot, a, src)?,
                        4 => {
                            // AnchoredSlice::take leaves an empty slice behind
                            let mut a = a;
                            let b = a.take();
                            if !a.slice().is_empty() {
                                return Err(fail(&["C05"], "anchored-take", "AnchoredSlice::take() left bytes behind".into()));
                            }
                            push_one(slot, b, src)?;
                            push_one(slot, a, &[])?;
                            let d: AnchoredSlice = Default::default();
                            push_one(slot, d, &[])?;
                        }
                        5 => {
                            // the clone outlives the original
                            let c = a.clone();
                            drop(a);
                            push_one(slot, c, src)?;
                        }
                        1 => {
                            let mut a = a;
                            let pre = (*count / 3).min(5);
                            let post = (*count / 4).min(3);
                            if a.skip_prefix(pre) != pre.min(*count) {
                                return Err(fail(&["C05"], "skip_prefix-ret", "skip_prefix returned an unexpected count".into()));
                            }
                            let left = *count - pre.min(*count);
                            if a.drop_suffix(post) != post.min(left) {
                                return Err(fail(&["C05"], "drop_suffix-ret", "drop_suffix returned an unexpected count".into()));
                            }
                            let end = *count - post.min(left);
                            push_one(slot, a, &src[pre.min(*count)..end])?;
                        }
                        2 => {
                            let mid = *count / 2;
                            let (l, r) = a.split_at(mid);
                            push_one(slot, l, &src[..mid])?;
                            push_one(slot, r, &src[mid..])?;
                        }
                        _ => {
                            let mid = *count / 2;
                            let (l, r) = a.split_at(mid);
                            push_one(slot, l, &src[..mid])?;
                            if r.slice() != &src[mid..] {
                                return Err(fail(&["C05"], "anchored-bytes", "right half of split_at does not hold the expected bytes".into()));
                            }
                            if mid < *count {
                                held.push(Held { slice: r, content: src[mid..].to_vec() });
                            }
                        }
                    }
                }
                Op::PushHeld => {
                    if !held.is_empty() {
                        let h = held.remove(step.slot % held.len());
                        let slot = &mut slots[t];
                        let (_ios, slice, anchor) = unsafe { h.slice.components() };
                        slot.iov.push_borrowed(slice);
                        slot.iov.push_anchor(anchor);
                        slot.shadow.bytes.extend_from_slice(&h.content);
                        rs.held_pushed_elsewhere += 1;
                    }
                }
                Op::DropHeld => {
                    if !held.is_empty() {
                        let h = held.remove(step.slot % held.len());
                        if si % 2 == 0 {
                            // clone first, drop the original, keep the clone a little longer
                            let c = h.slice.clone();
                            drop(h.slice);
                            held.push(Held { slice: c, content: h.content });
                        }
                    }
                }
                Op::PushAnchorDefault => {
                    slots[t].iov.push_anchor(Default::default());
                }
                Op::Register(len) => {
                    let slot = &mut slots[t];
                    let pattern = vec![0xEEu8; *len];
                    let before_len = slot.iov.len();
                    let backref = slot.iov.register_patch(&pattern);
                    if backref.len() != *len || backref.is_empty() != (*len == 0) {
                        return Err(fail(&["C04"], "backref-len", format!("register_patch({} bytes) returned a Backref of length {}", len, backref.len())));
                    }
                    if *len > 0 {
                        if slot.iov.len() == before_len && before_len > 0 {
                            rs.register_into_merged += 1;
                        }
                        let offset = slot.shadow.bytes.len();
                        slot.shadow.bytes.extend_from_slice(&pattern);
                        slot.shadow.pending.push(Pending { offset, len: *len, backref: Some(backref) });
                        rs.max_pending = rs.max_pending.max(slot.shadow.pending.len());
                    } else {
                        // empty backref: backfilling it with nothing must be a no-op
                        slot.iov.backfill_or_panic(backref, &[]);
                    }
                }
                Op::RegisterMany(k) => {
                    let slot = &mut slots[t];
                    for j in 0..*k {
                        let len = 1 + (j + si) % 3;
                        let pattern = vec![0xEEu8; len];
                        let backref = slot.iov.register_patch(&pattern);
                        if backref.len() != len {
                            return Err(fail(&["C04"], "backref-len", format!("register_patch({} bytes) returned a Backref of length {}", len, backref.len())));
                        }
                        let offset = slot.shadow.bytes.len();
                        slot.shadow.bytes.extend_from_slice(&pattern);
                        slot.shadow.pending.push(Pending { offset, len, backref: Some(backref) });
                    }
                    rs.max_pending = rs.max_pending.max(slot.shadow.pending.len());
                }
                Op::Backfill(which) => {
                    let slot = &mut slots[t];
                    let live: Vec<usize> = slot.shadow.pending.iter().enumerate().filter(|(_, p)| p.backref.is_some()).map(|(i, _)| i).collect();
                    if !live.is_empty() {
                        let i = live[which % live.len()];
                        if i != 0 {
                            rs.backfill_out_of_order += 1;
                        }
                        let p = slot.shadow.pending.remove(i);
                        let value = pool.take(p.len);
                        if p.offset < slot.shadow.observed_upto {
                            return Err(fail(&["C04"], "observed-pending", format!("iovec #{}: a pending placeholder at offset {} had already been exposed (observed up to {})", t, p.offset, slot.shadow.observed_upto)));
                        }
                        slot.iov.backfill_or_panic(p.backref.unwrap(), value);
                        slot.shadow.bytes[p.offset..p.offset + p.len].copy_from_slice(value);
                        rs.backfills += 1;
                        if slot.shadow.pending.is_empty() {
                            rs.unblocked_all += 1;
                        }
                    }
                }
                Op::BackfillWrongSize(which) => {
                    let slot = &mut slots[t];
                    let live: Vec<usize> = slot.shadow.pending.iter().enumerate().filter(|(_, p)| p.backref.is_some()).map(|(i, _)| i).collect();
                    if !live.is_empty() {
                        let i = live[which % live.len()];
                        let backref = slot.shadow.pending[i].backref.take().unwrap();
                        let wrong = pool.take(slot.shadow.pending[i].len + 1 + which % 2);
                        let iov = &mut slot.iov;
                        let r = catch(|| iov.backfill_or_panic(backref, wrong));
                        if r.is_ok() {
                            return Err(fail(&["C04"], "wrong-size-accepted", format!("iovec #{}: backfill_or_panic accepted {} bytes for a {}-byte placeholder", t, wrong.len(), slot.shadow.pending[i].len)));
                        }
                        // The Backref is gone: this placeholder can never be
                        // filled, and must block consumers from now on.
                        rs.rejected_backfills += 1;
                    }
                }
                Op::Clear => {
                    let slot = &mut slots[t];
                    if slot.shadow.bytes.len() > slot.shadow.handed {
                        rs.clear_with_data += 1;
                    }
                    slot.iov.clear();
                    slot.shadow = Shadow::new();
                }
                Op::Take => {
                    if slots.len() < 6 {
                        let slot = &mut slots[t];
                        let taken = slot.iov.take();
                        let mut sh = Shadow::new();
                        std::mem::swap(&mut sh, &mut slot.shadow);
                        let lineage = slot.lineage;
                        slots.push(Slot { iov: taken, shadow: sh, lineage });
                        touched.push(slots.len() - 1);
                        rs.takes += 1;
                    }
                }
                Op::Clone => {
                    if slots.len() < 6 {
                        let slot = &slots[t];
                        let c = slot.iov.clone();
                        let mut sh = Shadow::new();
                        sh.bytes = slot.shadow.bytes[slot.shadow.handed..].to_vec();
                        // A clone taken while placeholders are pending has them
                        // pending too, and for good: the Backref tokens stay
                        // with the original.
                        for p in &slot.shadow.pending {
                            sh.pending.push(Pending { offset: p.offset - slot.shadow.handed, len: p.len, backref: None });
                        }
                        if !sh.pending.is_empty() {
                            rs.clones_while_pending += 1;
                        }
                        let lineage = slot.lineage;
                        slots.push(Slot { iov: c, shadow: sh, lineage });
                        touched.push(slots.len() - 1);
                        rs.clones += 1;
                    }
                }
                Op::DropIovec => {
                    if slots.len() > 1 {
                        let s = slots.remove(t);
                        drop(s);
                        rs.dropped_mid_history += 1;
                        touched.clear();
                    }
                }
                Op::Flush => slots[t].iov.arena().flush_cache(),
                Op::Ensure(n) => slots[t].iov.arena().ensure_capacity(*n),
                Op::TakeArena => {
                    let a = slots[t].iov.consumer().take_arena();
                    if si % 2 == 1 && held_arenas.len() < 3 {
                        // a clone of an arena is a fresh arena
                        held_arenas.push(a.clone());
                    }
                    if held_arenas.len() < 4 {
                        held_arenas.push(a);
                    }
                    rs.arena_swaps += 1;
                }
                Op::SwapArenaWithHeld => {
                    let a = held_arenas.pop().unwrap_or_default();
                    let old = slots[t].iov.consumer().swap_arena(a);
                    if held_arenas.len() < 4 && si % 3 != 0 {
                        held_arenas.push(old);
                    }
                    rs.arena_swaps += 1;
                }
                Op::SwapArenaBetween => {
                    if slots.len() > 1 {
                        let u = (t + 1 + (si % (slots.len() - 1))) % slots.len();
                        if u != t {
                            let a = slots[t].iov.consumer().take_arena();
                            let b = slots[u].iov.consumer().swap_arena(a);
                            let _ = slots[t].iov.consumer().swap_arena(b);
                            touched.push(u);
                            rs.arena_swaps += 1;
                        }
                    }
                }
                Op::Consume(k) => {
                    let slot = &mut slots[t];
                    let (n, bytes): (usize, usize) = {
                        let p = slot.iov.stable_prefix();
                        let take = (*k).min(p.len());
                        (p.len(), p[..take].iter().map(|s| s.len()).sum())
                    };
                    let got = if si % 3 == 0 && slot.shadow.pending.is_empty() {
                        match slot.iov.stable_consumer() {
                            Ok(mut st) => {
                                rs.stable_consumptions += 1;
                                st.consume(*k)
                            }
                            Err(_) => return Err(fail(&["C04"], "stable_consumer-err-stable", format!("iovec #{}: stable_consumer() is Err with nothing pending", t))),
                        }
                    } else {
                        slot.iov.consumer().consume(*k)
                    };
                    if got != (*k).min(n) {
                        return Err(fail(if slot.shadow.pending.is_empty() { &["C03"] } else { &["C03", "C04"] }, "consume-ret", format!("iovec #{}: consume({}) returned {} with {} stable slices", t, k, got, n)));
                    }
                    slot.shadow.handed += bytes;
                    if !slot.shadow.pending.is_empty() && bytes > 0 {
                        rs.consume_while_pending += 1;
                    }
                }
                Op::Advance(n) => {
                    let slot = &mut slots[t];
                    let (stable, first_len): (usize, usize) = {
                        let p = slot.iov.stable_prefix();
                        (p.iter().map(|s| s.len()).sum(), p.first().map(|s| s.len()).unwrap_or(0))
                    };
                    let slices_before = slot.iov.len();
                    rs.max_slices = rs.max_slices.max(slices_before);
                    let got = if si % 3 == 0 && slot.shadow.pending.is_empty() {
                        match slot.iov.stable_consumer() {
                            Ok(mut st) => {
                                rs.stable_consumptions += 1;
                                st.advance_slices(*n)
                            }
                            Err(_) => return Err(fail(&["C04"], "stable_consumer-err-stable", format!("iovec #{}: stable_consumer() is Err with nothing pending", t))),
                        }
                    } else {
                        slot.iov.consumer().advance_slices(*n)
                    };
                    if slices_before - slot.iov.len().min(slices_before) > 1024 {
                        rs.big_advances += 1;
                    }
                    let want = (*n).min(stable);
                    if got != want {
                        return Err(fail(if slot.shadow.pending.is_empty() { &["C03"] } else { &["C03", "C04"] }, "advance-ret", format!("iovec #{}: advance_slices({}) returned {} with {} stable bytes", t, n, got, stable)));
                    }
                    slot.shadow.handed += want;
                    if want > 0 && want < first_len {
                        rs.partial_consume += 1;
                    }
                    if !slot.shadow.pending.is_empty() && want > 0 {
                        rs.consume_while_pending += 1;
                    }
                }
                Op::PopFront => {
                    let slot = &mut slots[t];
                    let first = slot.iov.stable_prefix().first().map(|s| s.len());
                    if let Some(l) = first {
                        slot.iov.consumer().pop_front();
                        slot.shadow.handed += l;
                    }
                }
                Op::Read(n) => {
                    let slot = &mut slots[t];
                    let stable: usize = slot.iov.stable_prefix().iter().map(|s| s.len()).sum();
                    let mut buf = vec![0u8; *n];
                    let got = slot.iov.consumer().read(&mut buf).map_err(|e| fail(&["C03"], "read-err", e.to_string()))?;
                    let want = (*n).min(stable);
                    if got != want {
                        return Err(fail(if slot.shadow.pending.is_empty() { &["C03"] } else { &["C03", "C04"] }, "read-ret", format!("iovec #{}: read(buf of {}) returned {} with {} stable bytes", t, n, got, stable)));
                    }
                    let sh = &mut slot.shadow;
                    if buf[..got] != sh.bytes[sh.handed..sh.handed + got] {
                        return Err(fail(&["C03"], "read-bytes", format!("iovec #{}: read() copied other bytes than the next {} buffered bytes", t, got)));
                    }
                    sh.handed += got;
                }
                Op::ReadToEnd => {
                    let slot = &mut slots[t];
                    let stable: usize = slot.iov.stable_prefix().iter().map(|s| s.len()).sum();
                    let mut buf = Vec::new();
                    let got = slot.iov.consumer().read_to_end(&mut buf).map_err(|e| fail(&["C03"], "read-err", e.to_string()))?;
                    if got != stable || buf.len() != stable {
                        return Err(fail(if slot.shadow.pending.is_empty() { &["C03"] } else { &["C03", "C04"] }, "read_to_end-ret", format!("iovec #{}: read_to_end returned {} with {} stable bytes", t, got, stable)));
                    }
                    let sh = &mut slot.shadow;
                    if buf[..] != sh.bytes[sh.handed..sh.handed + got] {
                        return Err(fail(&["C03"], "read-bytes", format!("iovec #{}: read_to_end() copied other bytes than the buffered ones", t)));
                    }
                    sh.handed += got;
                }
            }

            if ByteArena::num_live_chunks() > chunks_before {
                rs.arena_regrow += 1;
            }
            rs.max_live = rs.max_live.max(ByteArena::num_live_bytes());

            // Every live iovec against its own shadow, after every operation
            // on any of them (C20: interference shows on the untouched side).
            let small = slots.iter().map(|s| s.shadow.bytes.len() - s.shadow.handed).sum::<usize>() <= 32 * 1024;
            let lineages: Vec<usize> = slots.iter().map(|s| s.lineage).collect();
            for (i, slot) in slots.iter_mut().enumerate() {
                let is_touched = touched.contains(&i);
                let light = !(is_touched || small || si % 4 == 0);
                let clone_or_take = matches!(step.op, Op::Clone | Op::Take);
                let shares_lineage = lineages.iter().filter(|l| **l == lineages[i]).count() > 1;
                observe(i, slot, &owned, rs, light).map_err(|mut f| {
                    if (!is_touched || clone_or_take || shares_lineage) && !f.props.contains(&"C20") {
                        f.props.push("C20");
                    }
                    f
                })?;
            }
            check_held(&held, &owned, rs)?;
        }

        // Final: drop everything in a seeded random order, observing the
        // survivors after each drop.
        let mut rng = Rng::new(drop_seed);
        #[allow(clippy::large_enum_variant)]
        enum D<'p> {
            S(Slot<'p>),
            H(Held),
            #[allow(dead_code)]
            A(ByteArena),
        }
        let mut all: Vec<D<'_>> = Vec::new();
        for s in slots {
            all.push(D::S(s));
        }
        for h in held {
            all.push(D::H(h));
        }
        for a in held_arenas {
            all.push(D::A(a));
        }
        while !all.is_empty() {
            let i = rng.usize_below(all.len());
            let d = all.swap_remove(i);
            drop(d);
            for (k, d) in all.iter_mut().enumerate() {
                match d {
                    D::S(slot) => observe(k, slot, &owned, rs, false).map_err(|mut f| {
                        if !f.props.contains(&"C20") {
                            f.props.push("C20");
                        }
                        f.what = format!("after dropping another object: {}", f.what);
                        f
                    })?,
                    D::H(h) => check_held(std::slice::from_ref(h), &owned, rs)?,
                    D::A(_) => {}
                }
            }
        }
    }
    let (c, b) = (ByteArena::num_live_chunks(), ByteArena::num_live_bytes());
    if !CONCURRENT_PHASE.load(std::sync::atomic::Ordering::Relaxed) && (c != base_chunks || b != base_bytes) {
        return Err(fail(&["C10"], "leak-after-drop", format!("live arena chunks/bytes {}/{} after dropping everything, {}/{} before", c, b, base_chunks, base_bytes)));
    }
    Ok(())
}

/// Several threads, each running its own histories on its own objects, at the
/// same time.  Every history is checked against its shadow as usual; the
/// process-wide arena accounting must be back to its starting values once all
/// threads have been joined (C10), whatever the interleaving of chunk
/// allocations and releases was.
fn concurrent_phase(ctx: &mut Ctx, index_base: u64, rounds: u64, threads: u64, per_thread: u64) {
    use std::sync::atomic::Ordering;
    let seed = ctx.args.seed;
    let shard = ctx.args.shard;
    for round in 0..rounds {
        let idx = index_base + round;
        let describe = move || {
            Json::obj()
                .with("kind", Json::s("iovec-concurrent"))
                .with("index", Json::U(idx))
                .with("threads", Json::U(threads))
                .with("histories_per_thread", Json::U(per_thread))
        };
        ctx.begin_case(idx, describe);
        let base = (ByteArena::num_live_chunks(), ByteArena::num_live_bytes());
        CONCURRENT_PHASE.store(true, Ordering::SeqCst);
        let handles: Vec<std::thread::JoinHandle<(u64, Option<Fail>)>> = (0..threads)
            .map(|t| {
                std::thread::spawn(move || {
                    let pool_data = gen::pattern(seed.wrapping_mul(0x1000) + t, 64 * 1024);
                    let mut ops = 0u64;
                    for h in 0..per_thread {
                        let mut rng = Rng::for_case(seed, "iovec-mt", ((shard * 1_000 + round) * 64 + t) * 100_000 + h);
                        let mixk = *rng.pick(&[Mix::Pipe, Mix::Placeholders, Mix::CloneTake, Mix::Arena, Mix::Arena]);
                        let n = rng.range(1, 60);
                        let steps = gen_history(&mut rng, n, mixk, true);
                        let drop_seed = rng.next_u64();
                        let mut rs = RunStats::default();
                        let res = catch(|| execute(&steps, &pool_data, drop_seed, &mut rs));
                        ops += rs.ops;
                        match res {
                            Err(p) => return (ops, Some(fail(&["C03", "C05", "C20"], &format!("panic:{}", panic_sig(&p)), format!("history panicked while other threads ran theirs: {}", p)))),
                            Ok(Err(f)) => return (ops, Some(f)),
                            Ok(Ok(())) => {}
                        }
                    }
                    (ops, None)
                })
            })
            .collect();
        let mut first_fail: Option<Fail> = None;
        for h in handles {
            match h.join() {
                Ok((ops, f)) => {
                    ctx.ops += ops;
                    if first_fail.is_none() {
                        first_fail = f;
                    }
                }
                Err(_) => first_fail = Some(fail(&["C03"], "thread-died", "a history thread died outside catch_unwind".into())),
            }
        }
        CONCURRENT_PHASE.store(false, Ordering::SeqCst);
        let now = (ByteArena::num_live_chunks(), ByteArena::num_live_bytes());
        if let Some(f) = first_fail {
            ctx.violate(&f.props, &f.sig, format!("(concurrent phase) {}", f.what), describe());
        } else if now != base {
            ctx.violate(
                &["C10"],
                "concurrent-accounting",
                format!("after {} threads ran {} histories each on private objects and dropped everything, live arena chunks/bytes are {}/{} ({}/{} before)", threads, per_thread, now.0, now.1, base.0, base.1),
                describe(),
            );
        } else {
            ctx.feature_n("iovec.concurrent_rounds_with_accounting_back_to_baseline", 1);
            ctx.feature_n("iovec.histories_run_concurrently_on_private_objects", threads * per_thread);
        }
        ctx.end_case(idx);
        if ctx.too_many_violations() {
            return;
        }
    }
}

/// Cross-thread hand-off (the types are Send + Sync): thread A builds an
/// iovec, clones it and gives the clone to thread B; B keeps reading and
/// consuming the clone and checks every byte against the snapshot taken at
/// clone time, while A clears / refills / flushes / drops the original.
/// Natively this is a content + liveness check; under Miri any write by A
/// into memory B can read is a data race, and any early release a
/// use-after-free (C05 / C20 across threads).
fn handoff_case(rng: &mut Rng, pool: &[u8], small: bool) -> Result<(u64, u64), Fail> {
    let base = (ByteArena::num_live_chunks(), ByteArena::num_live_bytes());
    let mut checks = 0u64;
    let mut a_ops = 0u64;
    {
        let mut cursor = 0usize;
        let mut take = |len: usize| -> &[u8] {
            if cursor + len > pool.len() {
                cursor = 0;
            }
            let s = &pool[cursor..cursor + len];
            cursor += len;
            s
        };
        let mut iov: OwningIovec<'_> = OwningIovec::new();
        let mut expected: Vec<u8> = Vec::new();
        for _ in 0..rng.range(1, if small { 8 } else { 30 }) {
            let len = gen::iovec_length(rng, small).min(if small { 200 } else { 6000 });
            let d = take(len);
            match rng.below(5) {
                0 => iov.push(d),
                1 => iov.push_borrowed(d),
                2 => iov.push_copy(d),
                3 => {
                    let a = iov.arena().read_n(d, len, ATT).map_err(|e| fail(&["C17"], "read_n-err", e.to_string()))?;
                    let (_ios, slice, anchor) = unsafe { a.components() };
                    iov.push_borrowed(slice);
                    iov.push_anchor(anchor);
                }
                _ => {
                    let b = iov.register_patch(&vec![0xEE; len.min(8)]);
                    let v = take(len.min(8));
                    iov.backfill_or_panic(b, v);
                    expected.extend_from_slice(v);
                    continue;
                }
            }
            expected.extend_from_slice(d);
        }
        let clone = iov.clone();
        let rounds = rng.range(1, 6);
        let b_seed = rng.next_u64();
        let expected_ref: &[u8] = &expected;
        let verdict: Result<u64, Fail> = std::thread::scope(|sc| {
            let b = sc.spawn(move || -> Result<u64, Fail> {
                let mut rng = Rng::new(b_seed);
                let mut c = clone;
                let mut consumed = 0usize;
                let mut n = 0u64;
                for _ in 0..rounds {
                    let flat = c.flatten().map_err(|_| fail(&["C04", "C20"], "handoff-pending", "a clone of a fully backfilled iovec reports a pending placeholder".into()))?;
                    if flat[..] != expected_ref[consumed..] {
                        return Err(fail(&["C20", "C05"], "handoff-content", format!("a clone handed to another thread no longer holds the bytes it had when it was cloned (offset {})", consumed + first_diff(&flat, &expected_ref[consumed..]))));
                    }
                    n += 1;
                    let k = rng.usize_below(flat.len() / 2 + 1);
                    consumed += c.consumer().advance_slices(k);
                    std::thread::yield_now();
                }
                drop(c);
                Ok(n)
            });
            // Thread A, meanwhile.
            for _ in 0..rounds * 2 {
                match rng.below(5) {
                    0 => iov.clear(),
                    1 => {
                        let d = take(rng.range(1, 300));
                        iov.push_copy(d);
                    }
                    2 => {
                        let n = iov.total_size() / 2;
                        iov.consumer().advance_slices(n);
                    }
                    3 => iov.arena().flush_cache(),
                    _ => {
                        let b = iov.register_patch(&[0xEE; 4]);
                        iov.backfill_or_panic(b, &[1, 2, 3, 4]);
                    }
                }
                a_ops += 1;
                std::thread::yield_now();
            }
            drop(iov);
            match b.join() {
                Ok(r) => r,
                Err(_) => Err(fail(&["C20", "C05"], "handoff-panic", "the thread reading the clone panicked".into())),
            }
        });
        checks += verdict?;
    }
    let now = (ByteArena::num_live_chunks(), ByteArena::num_live_bytes());
    if !CONCURRENT_PHASE.load(std::sync::atomic::Ordering::Relaxed) && now != base {
        return Err(fail(&["C10"], "leak-after-drop", format!("live arena chunks/bytes {}/{} after a cross-thread hand-off, {}/{} before", now.0, now.1, base.0, base.1)));
    }
    Ok((checks, a_ops))
}

// ---------------------------------------------------------------------------
// Generation

#[derive(Clone, Copy, Debug, PartialEq, Eq)]
pub enum Mix {
    Pipe,
    Placeholders,
    CloneTake,
    Arena,
}

pub fn gen_history(rng: &mut Rng, n: usize, mixk: Mix, small: bool) -> Vec<Step> {
    let mut steps = Vec::with_capacity(n + 4);
    // (one length in thirty is zero: empty slices are legal arguments everywhere)
    let len = |rng: &mut Rng| if rng.chance(1, 30) { 0 } else { gen::iovec_length(rng, small) };
    let lens = |rng: &mut Rng, small: bool| -> Vec<usize> {
        let k = rng.range(0, 4);
        (0..k).map(|_| if rng.chance(1, 5) { 0 } else { gen::iovec_length(rng, small).min(if small { 300 } else { 5000 }) }).collect()
    };
    // initial creation
    let init = match rng.below(5) {
        0 => Op::NewFromSlices(lens(rng, small), rng.chance(1, 2)),
        1 => Op::Collect(lens(rng, small)),
        _ => Op::New,
    };
    steps.push(Step { slot: 0, op: init });
    // weights per mix:            push pushb pushc ext anch pushheld drophld anchdef reg bfill clear take clone drop flush ens tkar swph swpb cons adv pop read rte new bfwrong
    let w: [u32; 26] = match mixk {
        Mix::Pipe =>         [10, 8, 14, 3, 8, 2, 1, 1, 3, 6, 1, 1, 1, 1, 2, 2, 1, 1, 1, 8, 10, 4, 5, 1, 1, 0],
        Mix::Placeholders => [6, 5, 12, 2, 5, 1, 1, 1, 14, 16, 1, 1, 1, 0, 2, 1, 1, 1, 0, 7, 9, 3, 3, 1, 0, 1],
        Mix::CloneTake =>    [8, 6, 12, 2, 6, 2, 1, 1, 5, 10, 2, 6, 8, 3, 2, 1, 2, 2, 3, 6, 8, 3, 3, 1, 2, 0],
        Mix::Arena =>        [6, 5, 14, 2, 12, 4, 3, 2, 3, 6, 1, 2, 3, 2, 7, 5, 4, 4, 4, 6, 8, 3, 3, 1, 3, 0],
    };
    let regular = |rng: &mut Rng| -> Op {
        match rng.weighted(&w) {
            0 => Op::Push(len(rng)),
            1 => Op::PushBorrowed(len(rng)),
            2 => Op::PushCopy(len(rng)),
            3 => Op::Extend(lens(rng, small)),
            4 => {
                if !small && rng.chance(1, 500) {
                    // a read larger than the arena's largest regular chunk (1 MiB)
                    Op::AnchoredPush(rng.range(1_048_570, 1_400_000), rng.below(6) as u8)
                } else {
                    Op::AnchoredPush(len(rng).min(if small { 300 } else { 70_000 }), rng.below(6) as u8)
                }
            }
            5 => Op::PushHeld,
            6 => Op::DropHeld,
            7 => Op::PushAnchorDefault,
            8 => Op::Register(rng.range(0, 4)),
            9 => Op::Backfill(rng.usize_below(8)),
            10 => Op::Clear,
            11 => Op::Take,
            12 => Op::Clone,
            13 => Op::DropIovec,
            14 => Op::Flush,
            15 => Op::Ensure(if small {
                rng.range(1, 5000)
            } else if rng.chance(1, 25) {
                // beyond the arena's largest regular chunk (1 MiB)
                *rng.pick(&[1_048_576usize, 1_048_577, 1_300_000, 2_500_000])
            } else {
                *rng.pick(&[1usize, 100, 4096, 4097, 8192, 70_000, 300_000])
            }),
            16 => Op::TakeArena,
            17 => Op::SwapArenaWithHeld,
            18 => Op::SwapArenaBetween,
            19 => Op::Consume(rng.range(0, 4)),
            20 => Op::Advance(match rng.below(6) {
                0 => 0,
                1 => 1,
                2 => rng.range(1, 70),
                3 => rng.range(1, 400),
                4 => rng.range(1, if small { 600 } else { 9000 }),
                _ => usize::MAX,
            }),
            21 => Op::PopFront,
            22 => Op::Read(rng.range(0, if small { 300 } else { 3000 })),
            23 => Op::ReadToEnd,
            24 => match rng.below(3) {
                0 => Op::New,
                1 => Op::NewFromHeldArena,
                _ => Op::NewFromSlices(lens(rng, small), true),
            },
            _ => Op::BackfillWrongSize(rng.usize_below(8)),
        }
    };
    let mut produced = 0usize;
    while produced < n {
        let slot = rng.usize_below(8);
        if !small && rng.chance(1, 700) {
            // More slices than one writev takes (IOV_MAX = 1024), all stable
            // and too long to be merged, then one advance across them.
            let k = rng.range(1030, 2300);
            let lens: Vec<usize> = (0..k).map(|_| rng.range(65, 90)).collect();
            steps.push(Step { slot, op: Op::Extend(lens) });
            for _ in 0..rng.range(0, 3) {
                steps.push(Step { slot, op: regular(rng) });
            }
            steps.push(Step { slot, op: Op::Advance(if rng.chance(1, 2) { usize::MAX } else { rng.range(70_000, 200_000) }) });
            produced += 3;
            continue;
        }
        if !small && rng.chance(1, if mixk == Mix::Placeholders { 120 } else { 900 }) {
            // Many placeholders in flight at once, filled in random order.
            let k = rng.range(33, 160);
            steps.push(Step { slot, op: Op::RegisterMany(k) });
            for _ in 0..rng.range(20, 220) {
                let op = if rng.chance(4, 5) { Op::Backfill(rng.usize_below(1 << 12)) } else { regular(rng) };
                steps.push(Step { slot, op });
                produced += 1;
            }
            continue;
        }
        let op = regular(rng);
        steps.push(Step { slot, op });
        produced += 1;
    }
    steps
}

fn case_json(index: u64, mixk: Mix, steps: &[Step], drop_seed: u64) -> Json {
    Json::obj()
        .with("kind", Json::s("iovec-history"))
        .with("index", Json::U(index))
        .with("mix", Json::Str(format!("{:?}", mixk)))
        .with("drop_seed", Json::U(drop_seed))
        .with("n_ops", Json::U(steps.len() as u64))
        .with("ops", ops_json(&steps[..steps.len().min(400)]))
}

/// Greedy shrinker: delete operations while the same signature still fails.
fn shrink(steps: &[Step], pool: &[u8], drop_seed: u64, sig: &str, budget: usize) -> Vec<Step> {
    let mut cur: Vec<Step> = steps.to_vec();
    let mut runs = 0usize;
    let fails = |cand: &[Step]| -> bool {
        let mut rs = RunStats::default();
        match catch(|| execute(cand, pool, drop_seed, &mut rs)) {
            Err(p) => format!("panic:{}", panic_sig(&p)) == sig,
            Ok(Err(f)) => f.sig == sig,
            Ok(Ok(())) => false,
        }
    };
    let mut chunk = (cur.len() / 2).max(1);
    while chunk >= 1 && runs < budget {
        let mut i = 0;
        let mut progressed = false;
        while i < cur.len() && runs < budget {
            let end = (i + chunk).min(cur.len());
            let mut cand = cur.clone();
            cand.drain(i..end);
            runs += 1;
            if !cand.is_empty() && fails(&cand) {
                cur = cand;
                progressed = true;
            } else {
                i += chunk;
            }
        }
        if chunk == 1 && !progressed {
            break;
        }
        chunk = if chunk > 1 { chunk / 2 } else { 1 };
    }
    cur
}

fn bucket(v: u64) -> u64 {
    64 - v.leading_zeros() as u64
}

pub fn run(ctx: &mut Ctx) {
    let thorough = ctx.args.thorough();
    let miri = ctx.args.miri();
    let cases = ctx.args.cases.unwrap_or(if thorough { 1_000_000 } else { 20_000 });
    let max_ops = ctx.args.get_u64("ops", if miri { 60 } else { 400 }) as usize;
    let focus = ctx.args.get("focus").unwrap_or("C03").to_string();
    let small = miri || ctx.args.get_u64("small", 0) == 1;
    let pool_len = if miri { 12 * 1024 } else if small { 64 * 1024 } else { 4 << 20 };
    let pool_data = gen::pattern(ctx.args.seed.wrapping_mul(0x1000), pool_len);

    for r in 0..cases {
        let idx = r;
        if !ctx.mine(idx) {
            continue;
        }
        let mut rng = Rng::for_case(ctx.args.seed, "iovec", r);
        let mixk = match focus.as_str() {
            "C04" => *rng.pick(&[Mix::Placeholders, Mix::Placeholders, Mix::Placeholders, Mix::Pipe]),
            "C20" => *rng.pick(&[Mix::CloneTake, Mix::CloneTake, Mix::CloneTake, Mix::Arena]),
            "C05" | "C10" => *rng.pick(&[Mix::Arena, Mix::Arena, Mix::CloneTake, Mix::Placeholders]),
            _ => *rng.pick(&[Mix::Pipe, Mix::Pipe, Mix::Placeholders, Mix::CloneTake, Mix::Arena]),
        };
        // One history in 100 is long (thousands of operations): accumulated
        // state — arena chunk sizes grown to their 1 MiB maximum, many
        // clear / take / reuse cycles, long anchor queues.
        let long = !miri && !small && rng.chance(1, 100);
        let n = if long { rng.range(1500, 4000) } else { rng.range(1, max_ops) };
        let small_case = !long && (small || rng.chance(1, 3));
        let steps = gen_history(&mut rng, n, mixk, small_case);
        let drop_seed = rng.next_u64();
        ctx.begin_case(idx, || case_json(idx, mixk, &steps, drop_seed));
        let mut rs = RunStats::default();
        let res = catch(|| execute(&steps, &pool_data, drop_seed, &mut rs));
        ctx.ops += rs.ops;
        let outcome = match res {
            Err(p) => Some((vec!["C03", "C04", "C05", "C20"], format!("panic:{}", panic_sig(&p)), format!("history panicked: {}", p))),
            Ok(Err(f)) => Some((f.props, f.sig, f.what)),
            Ok(Ok(())) => None,
        };
        match outcome {
            Some((props, sig, what)) => {
                let shrunk = if miri { steps.clone() } else { shrink(&steps, &pool_data, drop_seed, &sig, 2000) };
                let mut cj = case_json(idx, mixk, &steps, drop_seed);
                cj.set("shrunk_ops", ops_json(&shrunk));
                ctx.violate(&props, &sig, what, cj);
            }
            None => {
                ctx.feature_n("iovec.merge_happened", rs.merges);
                ctx.feature_n("iovec.merge_refused", rs.merge_refused);
                ctx.feature_n("iovec.partial_consumption_of_a_slice", rs.partial_consume);
                ctx.feature_n("iovec.arena_chunk_allocated", rs.arena_regrow);
                ctx.feature_n("iovec.anchored_pushes", rs.anchored_pushes);
                ctx.feature_n("iovec.clear_with_outstanding_data", rs.clear_with_data);
                ctx.feature_n("iovec.clones", rs.clones);
                ctx.feature_n("iovec.takes", rs.takes);
                ctx.feature_n("iovec.backfills", rs.backfills);
                ctx.feature_n("iovec.backfill_out_of_order", rs.backfill_out_of_order);
                ctx.feature_n("iovec.placeholder_registered_into_merged_slice", rs.register_into_merged);
                ctx.feature_n("iovec.consumption_while_placeholder_pending", rs.consume_while_pending);
                ctx.feature_n("iovec.observations_with_bytes_blocked_behind_placeholder", rs.blocked_by_pending);
                ctx.feature_n("iovec.all_placeholders_filled_events", rs.unblocked_all);
                ctx.feature_n("iovec.rejected_wrong_size_backfills", rs.rejected_backfills);
                ctx.feature_n("iovec.clones_taken_while_a_placeholder_was_pending", rs.clones_while_pending);
                ctx.feature_n("iovec.pushes_through_ZeroCopySink", rs.sink_pushes);
                ctx.feature_n("iovec.StableIovec_flatten_views_compared", rs.stable_views);
                ctx.feature_n("iovec.consumption_through_StableIovec", rs.stable_consumptions);
                ctx.feature_n("iovec.single_advance_across_more_than_1024_slices", rs.big_advances);
                ctx.maximum("iovec.max_slices_before_an_advance", rs.max_slices as u64);
                ctx.feature_n("iovec.held_anchored_slice_pushed_later", rs.held_pushed_elsewhere);
                ctx.feature_n("iovec.arena_swaps", rs.arena_swaps);
                ctx.feature_n("iovec.iovec_dropped_mid_history", rs.dropped_mid_history);
                ctx.feature_n("iovec.exposed_slices_checked", rs.expose.slices_checked);
                ctx.feature_n("iovec.exposed_slices_in_arena", rs.expose.arena_slices);
                ctx.feature("iovec.drop_accounting_checked");
                if steps.len() > 1400 {
                    ctx.feature("iovec.long_histories");
                }
                if rs.max_live >= (1 << 20) {
                    ctx.feature("iovec.histories_reaching_1MiB_of_live_arena");
                }
                if rs.max_pending >= 32 {
                    ctx.feature("iovec.histories_with_32_or_more_placeholders_in_flight");
                }
                ctx.maximum("iovec.max_pending_placeholders", rs.max_pending as u64);
                ctx.maximum("iovec.max_live_arena_bytes", rs.max_live as u64);
                ctx.signature(mix(&[
                    mixk as u64,
                    bucket(rs.merges),
                    bucket(rs.partial_consume),
                    bucket(rs.arena_regrow),
                    bucket(rs.backfill_out_of_order),
                    bucket(rs.register_into_merged),
                    bucket(rs.consume_while_pending),
                    bucket(rs.clones),
                    bucket(rs.takes),
                    bucket(rs.arena_swaps),
                    bucket(rs.held_pushed_elsewhere),
                    rs.max_pending as u64,
                    (steps.len() / 16) as u64,
                ]));
                ctx.sample(3, || case_json(idx, mixk, &steps[..steps.len().min(30)], drop_seed));
            }
        }
        ctx.end_case(idx);
        if ctx.too_many_violations() {
            return;
        }
    }
    // Cross-thread hand-offs (all flavours, small under Miri).
    let handoffs = ctx.args.get_u64("handoffs", if miri { 6 } else if thorough { 40_000 } else { 4_000 });
    for r in 0..handoffs {
        let idx = (1u64 << 41) + r;
        if !ctx.mine(idx) {
            continue;
        }
        let mut rng = Rng::for_case(ctx.args.seed, "iovec-handoff", r);
        ctx.begin_case(idx, || Json::obj().with("kind", Json::s("iovec-handoff")).with("index", Json::U(idx)));
        let res = catch(|| handoff_case(&mut rng, &pool_data, small));
        match res {
            Err(p) => ctx.violate(&["C20", "C05"], &format!("panic:{}", panic_sig(&p)), format!("cross-thread hand-off panicked: {}", p), Json::obj().with("kind", Json::s("iovec-handoff")).with("index", Json::U(idx))),
            Ok(Err(f)) => ctx.violate(&f.props, &f.sig, f.what, Json::obj().with("kind", Json::s("iovec-handoff")).with("index", Json::U(idx))),
            Ok(Ok((checks, a_ops))) => {
                ctx.feature_n("iovec.cross_thread_clone_reads_checked", checks);
                ctx.feature_n("iovec.cross_thread_owner_ops_meanwhile", a_ops);
                ctx.ops += checks + a_ops;
            }
        }
        ctx.end_case(idx);
        if ctx.too_many_violations() {
            return;
        }
    }
    // Concurrent phase (not under Miri: its scheduler makes this very slow;
    // the counters are plain atomics).
    if !miri && ctx.args.only.is_none() {
        let rounds = ctx.args.get_u64("mt-rounds", if thorough { 40 } else { 6 });
        concurrent_phase(ctx, (1 << 40) + ctx.args.shard * 10_000, rounds, 4, 250);
    }
}
