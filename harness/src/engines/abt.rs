//! Engine `abt` (C13): AtomicBaseTime under real threads.
//!
//! mode=plain : no callback, no cross-thread harness synchronisation; meant
//!              for Miri (`-Zmiri-many-seeds`): Miri's weak-memory emulation
//!              and seeded scheduler produce the interleavings and
//!              reads-from choices, the oracle checks the per-thread logs
//!              after join.
//! mode=stress: native threads with delay injection at every atomic access
//!              and lock operation through hook H3; each access takes a
//!              ticket, giving a total order per run.

use std::cell::RefCell;
use std::sync::atomic::AtomicU64;
use std::sync::atomic::Ordering;
use std::sync::Arc;

use vouched_time::verif_sync;
use vouched_time::AtomicBaseTime;

use crate::ctx::catch;
use crate::ctx::panic_sig;
use crate::ctx::Ctx;
use crate::engines::vtime::voucher_bits;
use crate::engines::vtime::CRATE_PARAMS;
use crate::json::Json;
use crate::prng::mix;
use crate::prng::Rng;

#[derive(Clone, Copy, Debug, PartialEq, Eq)]
pub enum Kind {
    Update,
    TryUpdate,
    Snapshot,
    BadUpdate,
}

#[derive(Clone, Copy, Debug)]
pub struct Rec {
    pub kind: Kind,
    /// base passed (writes) or observed (snapshot)
    pub base: u64,
    /// voucher bits observed (snapshot)
    pub bits: u64,
    /// try_update result (true for update)
    pub ok: bool,
    /// global tickets taken just before the call and just after it returned
    /// (stress mode only; 0 in plain mode)
    pub begin: u64,
    pub end: u64,
    /// atomic loads performed inside the call (stress mode only)
    pub loads: u32,
}

#[derive(Clone, Copy, Debug)]
pub enum PlanOp {
    Update(u64),
    TryUpdate(u64),
    Snapshot,
    /// update() with a voucher for another value: the crate asserts and
    /// panics while holding the writer lock, which poisons it.  The pair
    /// must never become visible and every later call must keep working.
    BadUpdate(u64),
}

pub struct ThreadPlan {
    pub ops: Vec<PlanOp>,
}

pub struct Fail {
    pub sig: String,
    pub what: String,
}

fn fail(sig: &str, what: String) -> Fail {
    Fail { sig: sig.to_string(), what }
}

/// Builds the per-thread plans: writers send globally unique, mostly
/// increasing bases (a share deliberately below the thread's own maximum),
/// a share via try_update, and snapshot in between; readers only snapshot.
pub fn make_plans(rng: &mut Rng, writers: usize, k: usize, readers: usize, m: usize) -> Vec<ThreadPlan> {
    make_plans_poison(rng, writers, k, readers, m, 0)
}

/// `poison_permille`: chance per writer operation of an extra BadUpdate.
pub fn make_plans_poison(rng: &mut Rng, writers: usize, k: usize, readers: usize, m: usize, poison_permille: u64) -> Vec<ThreadPlan> {
    let mut plans = Vec::new();
    for w in 0..writers {
        let mut ops = Vec::new();
        let mut own_max = 0u64;
        let mut stale_count = 0u64;
        for i in 0..k {
            // globally unique: fresh bases are multiples of 16 (offset 1000),
            // stale ones sit 1..15 below the thread's own newest fresh base
            let fresh = 1000 + ((i * writers + w) as u64) * 16;
            let stale = own_max > 0 && stale_count < 15 && rng.chance(1, 5);
            let base = if stale {
                stale_count += 1;
                own_max - stale_count
            } else {
                fresh
            };
            if !stale {
                own_max = base;
                stale_count = 0;
            }
            if poison_permille > 0 && rng.below(1000) < poison_permille {
                // unique and far above every real base: if it ever became visible it would stick
                ops.push(PlanOp::BadUpdate(1_000_000_000 + fresh));
            }
            ops.push(if rng.chance(1, 3) { PlanOp::TryUpdate(base) } else { PlanOp::Update(base) });
            if rng.chance(1, 2) {
                ops.push(PlanOp::Snapshot);
            }
        }
        plans.push(ThreadPlan { ops });
    }
    for _ in 0..readers {
        plans.push(ThreadPlan { ops: (0..m).map(|_| PlanOp::Snapshot).collect() });
    }
    plans
}

// ---------------------------------------------------------------------------
// Stress-mode callback state

static TICKET: AtomicU64 = AtomicU64::new(1);

struct ThreadCtx {
    rng: Rng,
    delay_permille: u64,
    loads_in_call: u32,
    trace: Vec<(u64, u8)>,
    role: u8,
    active: bool,
}

thread_local! {
    static TCTX: RefCell<Option<ThreadCtx>> = const { RefCell::new(None) };
}

fn stress_callback(ev: &verif_sync::Event) {
    TCTX.with(|c| {
        let mut c = c.borrow_mut();
        let Some(t) = c.as_mut() else {
            return;
        };
        if !t.active {
            return;
        }
        if !ev.after {
            // delay injection between the module's own steps
            let x = t.rng.below(1000);
            if x < t.delay_permille {
                match t.rng.below(4) {
                    0 => std::thread::yield_now(),
                    1 => {
                        let spins = t.rng.below(200);
                        for _ in 0..spins {
                            std::hint::spin_loop();
                        }
                    }
                    2 => std::thread::sleep(std::time::Duration::from_micros(t.rng.below(40))),
                    _ => {
                        for _ in 0..t.rng.below(3) {
                            std::thread::yield_now();
                        }
                    }
                }
            }
        } else {
            let ticket = TICKET.fetch_add(1, Ordering::SeqCst);
            let code = match ev.op {
                verif_sync::Op::Load => 0,
                verif_sync::Op::Store => 1,
                verif_sync::Op::Lock => 2,
                verif_sync::Op::TryLock => 3,
                verif_sync::Op::Unlock => 4,
                verif_sync::Op::ClearPoison => 5,
            };
            if ev.op == verif_sync::Op::Load {
                t.loads_in_call += 1;
            }
            if t.trace.len() < 4096 {
                t.trace.push((ticket, t.role * 8 + code));
            }
        }
    });
}

pub struct RunOut {
    pub logs: Vec<Vec<Rec>>,
    pub final_snapshot: (u64, u64),
    pub trace_sig: u64,
}

/// Runs the plans on real threads against a fresh AtomicBaseTime.
pub fn run_threads(plans: Vec<ThreadPlan>, stress: Option<(u64, u64)>) -> Result<RunOut, Fail> {
    let abt = Arc::new(AtomicBaseTime::new());
    let mut handles = Vec::new();
    for (ti, plan) in plans.into_iter().enumerate() {
        let abt = abt.clone();
        handles.push(std::thread::spawn(move || {
            if let Some((seed, permille)) = stress {
                TCTX.with(|c| {
                    *c.borrow_mut() = Some(ThreadCtx {
                        rng: Rng::new(mix(&[seed, ti as u64])),
                        delay_permille: permille,
                        loads_in_call: 0,
                        trace: Vec::new(),
                        role: ti as u8,
                        active: false,
                    })
                });
            }
            let set_active = |on: bool| {
                if stress.is_some() {
                    TCTX.with(|c| {
                        if let Some(t) = c.borrow_mut().as_mut() {
                            t.active = on;
                            if on {
                                t.loads_in_call = 0;
                            }
                        }
                    });
                }
            };
            let loads = || -> u32 {
                if stress.is_some() {
                    TCTX.with(|c| c.borrow().as_ref().map(|t| t.loads_in_call).unwrap_or(0))
                } else {
                    0
                }
            };
            let tick = || if stress.is_some() { TICKET.fetch_add(1, Ordering::SeqCst) } else { 0 };
            let mut log = Vec::with_capacity(plan.ops.len());
            for op in plan.ops {
                match op {
                    PlanOp::Update(b) => {
                        let v = CRATE_PARAMS.vouch(b);
                        let begin = tick();
                        set_active(true);
                        abt.update((b, v));
                        set_active(false);
                        let end = tick();
                        log.push(Rec { kind: Kind::Update, base: b, bits: voucher_bits(v), ok: true, begin, end, loads: loads() });
                    }
                    PlanOp::BadUpdate(b) => {
                        let wrong = CRATE_PARAMS.vouch(b.wrapping_add(1));
                        let begin = tick();
                        let r = std::panic::catch_unwind(std::panic::AssertUnwindSafe(|| abt.update((b, wrong))));
                        let end = tick();
                        // ok == true would mean the crate accepted a pair whose voucher does not match
                        log.push(Rec { kind: Kind::BadUpdate, base: b, bits: voucher_bits(wrong), ok: r.is_ok(), begin, end, loads: 0 });
                    }
                    PlanOp::TryUpdate(b) => {
                        let v = CRATE_PARAMS.vouch(b);
                        let begin = tick();
                        set_active(true);
                        let ok = abt.try_update((b, v));
                        set_active(false);
                        let end = tick();
                        log.push(Rec { kind: Kind::TryUpdate, base: b, bits: voucher_bits(v), ok, begin, end, loads: loads() });
                    }
                    PlanOp::Snapshot => {
                        let begin = tick();
                        set_active(true);
                        let (b, v) = abt.snapshot();
                        set_active(false);
                        let end = tick();
                        log.push(Rec { kind: Kind::Snapshot, base: b, bits: voucher_bits(v), ok: true, begin, end, loads: loads() });
                    }
                }
            }
            let trace = if stress.is_some() { TCTX.with(|c| c.borrow_mut().take().map(|t| t.trace).unwrap_or_default()) } else { Vec::new() };
            (log, trace)
        }));
    }
    let mut logs = Vec::new();
    let mut all_trace: Vec<(u64, u8)> = Vec::new();
    for (ti, h) in handles.into_iter().enumerate() {
        match h.join() {
            Ok((log, trace)) => {
                logs.push(log);
                all_trace.extend(trace);
            }
            Err(e) => {
                let msg = if let Some(s) = e.downcast_ref::<&str>() {
                    s.to_string()
                } else if let Some(s) = e.downcast_ref::<String>() {
                    s.clone()
                } else {
                    "<panic>".into()
                };
                return Err(fail(&format!("thread-panic:{}", panic_sig(&msg)), format!("thread {} panicked: {}", ti, msg)));
            }
        }
    }
    let (fb, fv) = abt.snapshot();
    all_trace.sort_unstable();
    let mut sig = 0xabcdu64;
    for (_, code) in &all_trace {
        sig = mix(&[sig, *code as u64]);
    }
    Ok(RunOut { logs, final_snapshot: (fb, voucher_bits(fv)), trace_sig: sig })
}

#[derive(Default)]
pub struct OracleStats {
    pub snapshots: u64,
    pub retried: u64,
    pub overlapped_1: u64,
    pub overlapped_2: u64,
    pub try_failed: u64,
    pub stale_updates: u64,
    pub saw_initial: u64,
    pub saw_foreign: u64,
    pub poisonings: u64,
    pub threads_seeing_progress: u64,
}

/// The log checker: untorn, membership, never-observable, monotone, recent, final.
pub fn check_logs(out: &RunOut, timed: bool, st: &mut OracleStats) -> Result<(), Fail> {
    let epoch_bits = voucher_bits(CRATE_PARAMS.vouch(0));
    // bases passed, by writer; never-observable set
    // (small vectors + linear scans: cheap under Miri, no hashing)
    let mut passed: Vec<(u64, usize)> = Vec::new();
    let mut never: Vec<u64> = Vec::new();
    for (ti, log) in out.logs.iter().enumerate() {
        let mut own_max_done = 0u64;
        for r in log {
            match r.kind {
                Kind::Snapshot => {}
                Kind::BadUpdate => {
                    if r.ok {
                        return Err(fail("bad-voucher-accepted", format!("thread {} update({}) with a voucher for another value did not panic", ti, r.base)));
                    }
                    passed.push((r.base, ti));
                    never.push(r.base);
                    st.poisonings += 1;
                }
                Kind::Update | Kind::TryUpdate => {
                    passed.push((r.base, ti));
                    if r.kind == Kind::TryUpdate && !r.ok {
                        never.push(r.base);
                        st.try_failed += 1;
                    } else if r.kind == Kind::TryUpdate && r.ok && r.base < own_max_done {
                        return Err(fail("stale-accepted", format!("thread {} try_update({}) returned true although its own completed update had already carried {}", ti, r.base, own_max_done)));
                    } else if r.base < own_max_done {
                        // a completed update by the same thread already carried a
                        // newer base: this one was stale when it was issued
                        never.push(r.base);
                        st.stale_updates += 1;
                    }
                    if r.kind == Kind::Update || r.ok {
                        own_max_done = own_max_done.max(r.base);
                    }
                }
            }
        }
    }
    // completed updates in ticket order (timed mode)
    let mut completed: Vec<(u64, u64)> = Vec::new(); // (end ticket, base)
    if timed {
        for log in &out.logs {
            for r in log {
                if (r.kind == Kind::Update || (r.kind == Kind::TryUpdate && r.ok)) && !never.contains(&r.base) {
                    completed.push((r.end, r.base));
                }
            }
        }
        completed.sort_unstable();
    }
    // prefix maxima of completed bases by end ticket
    let mut prefix_max: Vec<(u64, u64)> = Vec::with_capacity(completed.len());
    let mut m = 0u64;
    for (t, b) in &completed {
        m = m.max(*b);
        prefix_max.push((*t, m));
    }

    for (ti, log) in out.logs.iter().enumerate() {
        {
            // interleaving evidence: a thread whose successive snapshots differ
            // ran concurrently with writers
            let mut distinct: Vec<u64> = log.iter().filter(|r| r.kind == Kind::Snapshot).map(|r| r.base).collect();
            distinct.dedup();
            if distinct.len() > 1 {
                st.threads_seeing_progress += 1;
            }
        }
        let mut last_seen = 0u64;
        let mut own_floor = 0u64;
        for (i, r) in log.iter().enumerate() {
            match r.kind {
                Kind::BadUpdate => {}
                Kind::Update => own_floor = own_floor.max(r.base),
                Kind::TryUpdate => {
                    if r.ok {
                        own_floor = own_floor.max(r.base);
                    }
                }
                Kind::Snapshot => {
                    st.snapshots += 1;
                    // untorn
                    if r.bits != voucher_bits(CRATE_PARAMS.vouch(r.base)) {
                        return Err(fail("torn", format!("thread {} snapshot #{} returned base {} with a voucher for another value (torn pair)", ti, i, r.base)));
                    }
                    // membership
                    if r.base == 0 {
                        if r.bits != epoch_bits {
                            return Err(fail("torn", "epoch base with a non-epoch voucher".into()));
                        }
                        st.saw_initial += 1;
                    } else {
                        match passed.iter().find(|p| p.0 == r.base) {
                            None => return Err(fail("foreign-pair", format!("thread {} snapshot #{} returned base {} which was never passed to update/try_update", ti, i, r.base))),
                            Some((_, owner)) => {
                                if *owner != ti {
                                    st.saw_foreign += 1;
                                }
                            }
                        }
                        if never.contains(&r.base) {
                            return Err(fail("observed-rejected", format!("thread {} snapshot #{} returned base {} from an update that was refused (try_update returned false) or stale when issued", ti, i, r.base)));
                        }
                    }
                    // monotone per thread
                    if r.base < last_seen {
                        return Err(fail("went-backwards", format!("thread {} snapshot #{} returned base {} after an earlier snapshot returned {}", ti, i, r.base, last_seen)));
                    }
                    last_seen = r.base;
                    // recent: own completed updates (program order)
                    if r.base < own_floor {
                        return Err(fail("stale-own", format!("thread {} snapshot #{} returned base {} after its own completed update to {}", ti, i, r.base, own_floor)));
                    }
                    // recent: updates that returned before this snapshot began (tickets)
                    if timed && !prefix_max.is_empty() {
                        let idx = prefix_max.partition_point(|(t, _)| *t < r.begin);
                        if idx > 0 {
                            let floor = prefix_max[idx - 1].1;
                            if r.base < floor {
                                return Err(fail("stale-completed", format!("thread {} snapshot #{} (began at ticket {}) returned base {} although an update to {} had returned before", ti, i, r.begin, r.base, floor)));
                            }
                        }
                        // overlap statistics: completed updates whose interval intersects the snapshot's
                        let during = out
                            .logs
                            .iter()
                            .flatten()
                            .filter(|u| (u.kind == Kind::Update || (u.kind == Kind::TryUpdate && u.ok)) && u.end > r.begin && u.end < r.end)
                            .count();
                        if during >= 1 {
                            st.overlapped_1 += 1;
                        }
                        if during >= 2 {
                            st.overlapped_2 += 1;
                        }
                    }
                    if r.loads > 4 {
                        st.retried += 1;
                    }
                }
            }
        }
    }
    // final quiescent snapshot == maximum accepted base
    let max_accepted = out
        .logs
        .iter()
        .flatten()
        .filter(|r| r.kind == Kind::Update || (r.kind == Kind::TryUpdate && r.ok))
        .map(|r| r.base)
        .max()
        .unwrap_or(0);
    if out.final_snapshot.0 != max_accepted {
        return Err(fail("final", format!("final quiescent snapshot has base {}, the newest accepted update carried {}", out.final_snapshot.0, max_accepted)));
    }
    if out.final_snapshot.1 != voucher_bits(CRATE_PARAMS.vouch(out.final_snapshot.0)) {
        return Err(fail("torn", "final snapshot is a torn pair".into()));
    }
    Ok(())
}

fn logs_json(out: &RunOut) -> Json {
    Json::Arr(
        out.logs
            .iter()
            .map(|l| {
                Json::Arr(
                    l.iter()
                        .take(40)
                        .map(|r| Json::Str(format!("{:?}({}){}", r.kind, r.base, if r.kind == Kind::TryUpdate { if r.ok { "=true" } else { "=false" } } else { "" })))
                        .collect(),
                )
            })
            .collect(),
    )
}

fn logs_sig(out: &RunOut) -> u64 {
    let mut s = 0x77u64;
    for l in &out.logs {
        s = mix(&[s, 0xffff]);
        for r in l {
            s = mix(&[s, r.base, r.ok as u64, r.kind as u64]);
        }
    }
    s
}

pub fn run(ctx: &mut Ctx) {
    let mode = ctx.args.get("mode").unwrap_or(if ctx.args.miri() { "plain" } else { "stress" }).to_string();
    let thorough = ctx.args.thorough();
    if mode == "plain" {
        // One execution per process run (Miri supplies the schedule / reads-from
        // choices through its seed); a few workload shapes per run.
        let rounds = ctx.args.cases.unwrap_or(1);
        let (w, k, r, m) = (
            ctx.args.get_u64("writers", 2) as usize,
            ctx.args.get_u64("updates", 4) as usize,
            ctx.args.get_u64("readers", 2) as usize,
            ctx.args.get_u64("snapshots", 6) as usize,
        );
        for round in 0..rounds {
            let idx = round;
            if !ctx.mine(idx) {
                continue;
            }
            let mut rng = Rng::for_case(ctx.args.seed, "abt-plain", round);
            let poison = ctx.args.get_u64("poison", 0);
            let plans = make_plans_poison(&mut rng, w, k, r, m, poison);
            ctx.begin_case(idx, || Json::obj().with("kind", Json::s("abt-plain")).with("index", Json::U(idx)));
            let out = match run_threads(plans, None) {
                Ok(o) => o,
                Err(f) => {
                    ctx.violate(&["C13"], &f.sig, f.what, Json::obj().with("kind", Json::s("abt-plain")).with("index", Json::U(idx)));
                    ctx.end_case(idx);
                    continue;
                }
            };
            let mut st = OracleStats::default();
            match check_logs(&out, false, &mut st) {
                Err(f) => ctx.violate(&["C13"], &f.sig, f.what, Json::obj().with("kind", Json::s("abt-plain")).with("index", Json::U(idx)).with("logs", logs_json(&out))),
                Ok(()) => {
                    record(ctx, &st);
                    ctx.feature("abt.plain_runs");
                    ctx.signature(logs_sig(&out));
                    if !ctx.args.miri() {
                        ctx.sample(1, || Json::obj().with("kind", Json::s("abt-plain")).with("logs", logs_json(&out)));
                    } else {
                        let snaps: Vec<Json> = out.logs.iter().map(|l| Json::Arr(l.iter().filter(|r| r.kind == Kind::Snapshot).map(|r| Json::U(r.base)).collect())).collect();
                        ctx.sample(1, || Json::obj().with("kind", Json::s("abt-plain")).with("snapshot_bases_per_thread", Json::Arr(snaps)));
                    }
                }
            }
            ctx.ops += (w * k + r * m) as u64;
            ctx.end_case(idx);
        }
        return;
    }

    // stress mode
    let runs = ctx.args.cases.unwrap_or(if thorough { 200_000 } else { 2_000 });
    let (w, k, r, m) = (
        ctx.args.get_u64("writers", 4) as usize,
        ctx.args.get_u64("updates", 25) as usize,
        ctx.args.get_u64("readers", 4) as usize,
        ctx.args.get_u64("snapshots", 50) as usize,
    );
    verif_sync::set_callback(Some(Box::new(stress_callback)));
    for run_i in 0..runs {
        let idx = run_i;
        if !ctx.mine(idx) {
            continue;
        }
        let mut rng = Rng::for_case(ctx.args.seed, "abt-stress", run_i);
        let poison = if rng.chance(1, 5) { 60 } else { 0 };
        let plans = make_plans_poison(&mut rng, w, k, r, m, poison);
        let permille = *rng.pick(&[0u64, 50, 200, 500, 900]);
        let seed = rng.next_u64();
        let case = || Json::obj().with("kind", Json::s("abt-stress")).with("index", Json::U(idx)).with("delay_permille", Json::U(permille)).with("threads", Json::U((w + r) as u64));
        ctx.begin_case(idx, case);
        let res = catch(|| run_threads(plans, Some((seed, permille))));
        match res {
            Err(p) => ctx.violate(&["C13"], &format!("panic:{}", panic_sig(&p)), p, case()),
            Ok(Err(f)) => ctx.violate(&["C13"], &f.sig, f.what, case()),
            Ok(Ok(out)) => {
                let mut st = OracleStats::default();
                match check_logs(&out, true, &mut st) {
                    Err(f) => ctx.violate(&["C13"], &f.sig, f.what, case().with("logs", logs_json(&out))),
                    Ok(()) => {
                        record(ctx, &st);
                        ctx.feature("abt.stress_runs");
                        ctx.signature(out.trace_sig);
                        ctx.sample(2, || case().with("logs", logs_json(&out)));
                    }
                }
            }
        }
        ctx.ops += (w * k + r * m) as u64;
        ctx.end_case(idx);
        if ctx.too_many_violations() {
            break;
        }
    }
    verif_sync::set_callback(None);
}

fn record(ctx: &mut Ctx, st: &OracleStats) {
    ctx.feature_n("abt.snapshots_checked", st.snapshots);
    ctx.feature_n("abt.snapshots_that_retried", st.retried);
    ctx.feature_n("abt.snapshots_overlapping_1_completed_update", st.overlapped_1);
    ctx.feature_n("abt.snapshots_overlapping_2_completed_updates", st.overlapped_2);
    ctx.feature_n("abt.try_update_returned_false", st.try_failed);
    ctx.feature_n("abt.stale_updates_issued", st.stale_updates);
    ctx.feature_n("abt.snapshots_of_initial_pair", st.saw_initial);
    ctx.feature_n("abt.snapshots_of_another_threads_update", st.saw_foreign);
    ctx.feature_n("abt.writer_lock_poisoned_by_panicking_update", st.poisonings);
    ctx.feature_n("abt.threads_whose_successive_snapshots_differ", st.threads_seeing_progress);
}
