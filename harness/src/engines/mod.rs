pub mod deque;
