pub mod codec;
pub mod deque;
pub mod iovec;
pub mod readn;
pub mod stream;
pub mod tlv;
pub mod vtime;
