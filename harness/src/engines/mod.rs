pub mod codec;
pub mod deque;
