//! Engine `tlv`: rough_tlv MessageWrapper / ToRoughTLV / MessageView.
//! C11: encode-then-view round trip and exact layout against an independent
//! layout builder; acceptance limits with length-claiming values.
//! C12: MessageView totality and accessor agreement on untrusted bytes
//! against an independent parser.

use std::borrow::Cow;

use owning_iovec::OwningIovec;
use owning_iovec::ZeroCopySink;
use rough_tlv::MessageView;
use rough_tlv::MessageWrapper;
use rough_tlv::Tag;
use rough_tlv::ToRoughTLV;

use crate::ctx::catch;
use crate::ctx::panic_sig;
use crate::ctx::Ctx;
use crate::gen;
use crate::json::Json;
use crate::prng::hash_bytes;
use crate::prng::mix;
use crate::prng::Rng;

pub struct Fail {
    pub props: Vec<&'static str>,
    pub sig: String,
    pub what: String,
}

fn f11(sig: &str, what: String) -> Fail {
    Fail { props: vec!["C11"], sig: sig.to_string(), what }
}
fn f12(sig: &str, what: String) -> Fail {
    Fail { props: vec!["C12"], sig: sig.to_string(), what }
}

// ---------------------------------------------------------------------------
// Independent layout builder and parser

/// Expected bytes for pairs given in *insertion* order.
pub fn layout(pairs: &[(u32, Vec<u8>)]) -> Vec<u8> {
    let mut idx: Vec<usize> = (0..pairs.len()).collect();
    // stable: ties keep insertion order
    idx.sort_by_key(|i| pairs[*i].0);
    let mut out = Vec::new();
    out.extend_from_slice(&(pairs.len() as u32).to_le_bytes());
    let mut sum = 0u32;
    for (k, i) in idx.iter().enumerate() {
        if k + 1 == idx.len() {
            break;
        }
        sum += pairs[*i].1.len() as u32;
        out.extend_from_slice(&sum.to_le_bytes());
    }
    for i in &idx {
        out.extend_from_slice(&pairs[*i].0.to_le_bytes());
    }
    for i in &idx {
        out.extend_from_slice(&pairs[*i].1);
    }
    out
}

pub fn sorted_pairs(pairs: &[(u32, Vec<u8>)]) -> Vec<(u32, Vec<u8>)> {
    let mut v = pairs.to_vec();
    v.sort_by_key(|p| p.0);
    v
}

fn le32(b: &[u8], word: usize) -> u32 {
    u32::from_le_bytes([b[4 * word], b[4 * word + 1], b[4 * word + 2], b[4 * word + 3]])
}

/// Independent parser: None = reject, Some(list of (tag, value range)).
pub fn parse(b: &[u8]) -> Option<Vec<(u32, std::ops::Range<usize>)>> {
    if b.len() < 4 {
        return None;
    }
    let n = le32(b, 0) as u64;
    if n.checked_mul(8)? > b.len() as u64 {
        return None;
    }
    let n = n as usize;
    if n == 0 {
        return Some(Vec::new());
    }
    let offsets: Vec<u32> = (1..n).map(|w| le32(b, w)).collect();
    let tags: Vec<u32> = (n..2 * n).map(|w| le32(b, w)).collect();
    if offsets.windows(2).any(|w| w[0] > w[1]) {
        return None;
    }
    if tags.windows(2).any(|w| w[0] > w[1]) {
        return None;
    }
    let header = 8 * n;
    if let Some(last) = offsets.last() {
        if header as u64 + *last as u64 > b.len() as u64 {
            return None;
        }
    }
    let mut out = Vec::with_capacity(n);
    for i in 0..n {
        let start = header + if i == 0 { 0 } else { offsets[i - 1] as usize };
        let end = if i == n - 1 { b.len() } else { header + offsets[i] as usize };
        out.push((tags[i], start..end));
    }
    Some(out)
}

// ---------------------------------------------------------------------------
// C12 checks on one byte string

#[derive(Default)]
struct ViewObs {
    accepted: u64,
    rejected: u64,
    empty_msgs: u64,
    repeated_tags: u64,
    finds: u64,
    iterator_adaptors: u64,
}

fn check_view_bytes(bytes: &[u8], owned_cow: bool, obs: &mut ViewObs) -> Result<(), Fail> {
    let expected = parse(bytes);
    let res = catch(|| {
        let cow: Cow<'_, [u8]> = if owned_cow { Cow::Owned(bytes.to_vec()) } else { Cow::Borrowed(bytes) };
        MessageView::new(cow)
    });
    let view = match res {
        Err(p) => return Err(f12(&format!("panic:{}", panic_sig(&p)), format!("MessageView::new panicked: {}", p))),
        Ok(v) => v,
    };
    let (view, exp) = match (view, expected) {
        (Err(_), None) => {
            obs.rejected += 1;
            return Ok(());
        }
        (Ok(_), None) => return Err(f12("accepts-malformed", "MessageView::new accepted bytes the format does not allow".into())),
        (Err(e), Some(_)) => return Err(f12("rejects-wellformed", format!("MessageView::new rejected a well-formed message: {}", e))),
        (Ok(v), Some(e)) => (v, e),
    };
    obs.accepted += 1;
    let n = exp.len();
    if n == 0 {
        obs.empty_msgs += 1;
    }
    let r = catch(|| -> Result<(), Fail> {
        if view.len() != n {
            return Err(f12("len", format!("len() = {}, header says {}", view.len(), n)));
        }
        if view.is_empty() != (n == 0) {
            return Err(f12("is_empty", format!("is_empty() = {} with {} pairs", view.is_empty(), n)));
        }
        if view.inner().as_ref() != bytes {
            return Err(f12("inner", "inner() is not the wrapped buffer".into()));
        }
        // all pointer identities below are relative to the view's own storage
        let bytes: &[u8] = view.inner().as_ref();
        let tags: Vec<u32> = view.tags().iter().map(|t| t.value()).collect();
        let etags: Vec<u32> = exp.iter().map(|e| e.0).collect();
        if tags != etags {
            return Err(f12("tags", format!("tags() = {:?}, header has {:?}", &tags[..tags.len().min(8)], &etags[..etags.len().min(8)])));
        }
        let items: Vec<(Tag, &[u8])> = view.iter().collect();
        if items.len() != n {
            return Err(f12("iter-len", format!("iter() yields {} items for {} pairs", items.len(), n)));
        }
        let mut pos = 8 * n;
        for i in 0..n {
            let want = &bytes[exp[i].1.clone()];
            let (t, v) = items[i];
            if t.value() != exp[i].0 || v != want {
                return Err(f12("iter-item", format!("iter() item {} differs from the format's pair", i)));
            }
            match view.get(i) {
                Some((t2, v2)) if t2.value() == exp[i].0 && v2 == want => {}
                other => return Err(f12("get", format!("get({}) = {:?} disagrees with iteration", i, other.map(|(t, v)| (t.value(), v.len()))))),
            }
            match view.get_value(i) {
                Some(v3) if v3 == want => {
                    // tiling: values are consecutive, starting right after the header
                    let start = v3.as_ptr() as usize - bytes_base(&view);
                    if start != pos {
                        return Err(f12("tiling", format!("value {} starts at byte {} instead of {}", i, start, pos)));
                    }
                    pos += v3.len();
                }
                other => return Err(f12("get_value", format!("get_value({}) = {:?} disagrees with iteration", i, other.map(|v| v.len())))),
            }
        }
        if n >= 1 && pos != bytes.len() {
            return Err(f12("tiling-end", format!("values end at byte {} of {}", pos, bytes.len())));
        }
        // The iterator through the std adaptors (nth / skip / step_by / count /
        // last / size_hint): same pairs as indexed access, in the same order.
        let same = |a: Option<(Tag, &[u8])>, i: usize| -> bool {
            match (a, items.get(i)) {
                (None, None) => true,
                (Some((t, v)), Some((t2, v2))) => t == *t2 && v.as_ptr() == v2.as_ptr() && v.len() == v2.len(),
                _ => false,
            }
        };
        if view.iter().count() != n {
            return Err(f12("iter-count", format!("iter().count() != {}", n)));
        }
        let (lo, hi) = view.iter().size_hint();
        if lo > n || hi.map(|h| h < n).unwrap_or(false) {
            return Err(f12("iter-size_hint", format!("iter().size_hint() = ({}, {:?}) for {} pairs", lo, hi, n)));
        }
        if !same(view.iter().last(), n.wrapping_sub(1)) {
            return Err(f12("iter-last", "iter().last() is not the last pair".into()));
        }
        for k in [0usize, 1, n / 2, n.saturating_sub(1), n, n + 1] {
            let mut it = view.iter();
            if !same(it.nth(k), k) {
                return Err(f12("iter-nth", format!("iter().nth({}) disagrees with get({}) on {} pairs", k, k, n)));
            }
            if !same(it.next(), k.saturating_add(1)) {
                return Err(f12("iter-nth-next", format!("next() after nth({}) is not pair {} (of {})", k, k + 1, n)));
            }
            let skipped: Vec<(Tag, &[u8])> = view.iter().skip(k).take(n + 2).collect();
            if skipped.len() != n.saturating_sub(k) || skipped.iter().enumerate().any(|(j, x)| !same(Some(*x), k + j)) {
                return Err(f12("iter-skip", format!("iter().skip({}) does not yield pairs {}.. of {}", k, k, n)));
            }
        }
        for step in [2usize, 3] {
            let stepped: Vec<(Tag, &[u8])> = view.iter().step_by(step).take(n + 2).collect();
            if stepped.len() != n.div_ceil(step) || stepped.iter().enumerate().any(|(j, x)| !same(Some(*x), j * step)) {
                return Err(f12("iter-step_by", format!("iter().step_by({}) does not yield every {}th pair of {}", step, step, n)));
            }
        }
        obs.iterator_adaptors += 1;
        for i in [n, n + 1, 2 * n, 2 * n + 1, usize::MAX, usize::MAX - 1] {
            if i < n {
                continue;
            }
            if let Some((t, v)) = view.get(i) {
                return Err(f12("get-out-of-range", format!("get({}) on a message of {} pairs returned ({}, {} bytes)", i, n, t.value(), v.len())));
            }
            if let Some(v) = view.get_value(i) {
                return Err(f12("get_value-out-of-range", format!("get_value({}) on a message of {} pairs returned {} bytes", i, n, v.len())));
            }
        }
        // tag lookups
        let mut probes: Vec<u32> = vec![0, 1, u32::MAX, u32::MAX - 1];
        for t in &etags {
            probes.push(*t);
            probes.push(t.wrapping_add(1));
            probes.push(t.wrapping_sub(1));
        }
        probes.truncate(64);
        for t in probes {
            let candidates: Vec<&[u8]> = exp.iter().filter(|e| e.0 == t).map(|e| &bytes[e.1.clone()]).collect();
            let got = view.find(mk_tag(t));
            let got_idx = view.find_tag(t);
            obs.finds += 1;
            match (got, candidates.is_empty()) {
                (None, true) => {
                    if got_idx.is_some() {
                        return Err(f12("find_tag-absent", format!("find_tag({}) = {:?} but the tag is absent", t, got_idx)));
                    }
                }
                (Some(v), true) => return Err(f12("find-absent", format!("find({}) returned {} bytes but the tag is absent", t, v.len()))),
                (None, false) => return Err(f12("find-missing", format!("find({}) returned nothing but the tag is present", t))),
                (Some(v), false) => {
                    let i = match got_idx {
                        Some(i) => i,
                        None => return Err(f12("find_tag-missing", format!("find_tag({}) is None but find() succeeded", t))),
                    };
                    if i >= n || etags[i] != t {
                        return Err(f12("find_tag-wrong", format!("find_tag({}) = {} which holds tag {:?}", t, i, etags.get(i))));
                    }
                    // must be a value stored under exactly that tag (pointer-identical to one of them)
                    let ok = exp.iter().any(|e| e.0 == t && bytes[e.1.clone()].as_ptr() == v.as_ptr() && e.1.len() == v.len())
                        || (v.is_empty() && candidates.iter().any(|c| c.is_empty()));
                    if !ok {
                        return Err(f12("find-wrong-value", format!("find({}) returned a value that is not stored under that tag", t)));
                    }
                    if candidates.len() > 1 {
                        obs.repeated_tags += 1;
                    }
                }
            }
        }
        if !view.tags_match_exactly(etags.iter().map(|t| mk_tag(*t))) {
            return Err(f12("tags_match_exactly", "tags_match_exactly(own tags) is false".into()));
        }
        let mut other = etags.clone();
        other.push(7);
        if view.tags_match_exactly(other.iter().map(|t| mk_tag(*t))) {
            return Err(f12("tags_match_exactly", "tags_match_exactly(own tags + one) is true".into()));
        }
        Ok(())
    });
    match r {
        Err(p) => Err(f12(&format!("panic:{}", panic_sig(&p)), format!("an accessor panicked on an accepted message: {}", p))),
        Ok(x) => x,
    }
}

fn bytes_base(view: &MessageView<'_>) -> usize {
    view.inner().as_ptr() as usize
}

// ---------------------------------------------------------------------------
// C11

#[derive(Clone, Copy, Debug, PartialEq, Eq)]
enum Kind {
    Bytes,
    Str,
    CowBytes,
    CowStr,
    Nested2,
    Nested3,
    View,
}
const KINDS: [Kind; 7] = [Kind::Bytes, Kind::Str, Kind::CowBytes, Kind::CowStr, Kind::Nested2, Kind::Nested3, Kind::View];

#[derive(Clone, Copy, Debug, PartialEq, Eq)]
enum Ctor {
    New,
    FromSlice,
    FromSorted,
}

#[derive(Clone, Copy, Debug, PartialEq, Eq)]
enum SinkKind {
    Iovec,
    IovecByRef,
    Hcobs,
}

const TAG_POOL: [u32; 12] = [0, 1, 2, 3, 5, 0x0100_0000, 0x0000_0002, 0x0001_0000, 0x544f_4f52, 0x0047_4953, u32::MAX, u32::MAX - 1];

/// Builds the tag with little-endian value `t` through one of the six public
/// constructors / conversions (they are documented as equivalent) and checks
/// every way of reading it back.
fn mk_tag(t: u32) -> Tag {
    let b = t.to_le_bytes();
    let tag: Tag = match (t ^ (t >> 7) ^ (t >> 19)) % 6 {
        0 => Tag::new_from_u32(t),
        1 => Tag::new(&b),
        2 => t.into(),
        3 => (&t).into(),
        4 => b.into(),
        _ => (&b).into(),
    };
    if tag.bytes != b || tag.value() != t || u32::from(tag) != t || u32::from(&tag) != t {
        panic!("TAG-CONVERSION: a Tag built from {:#010x} reads back as bytes {:?} / value {:#010x}", t, tag.bytes, tag.value());
    }
    tag
}

fn gen_tags(rng: &mut Rng, n: usize) -> Vec<u32> {
    let small_universe = rng.chance(2, 3);
    (0..n)
        .map(|_| {
            if small_universe {
                let lim = if rng.chance(1, 2) { 5 } else { TAG_POOL.len() };
                TAG_POOL[rng.usize_below(lim)]
            } else {
                rng.next_u64() as u32
            }
        })
        .collect()
}

fn gen_value(rng: &mut Rng, ascii: bool, max: usize) -> Vec<u8> {
    if max >= 600 && rng.chance(1, 400) {
        // a value right around 64 KiB or 255 / 256 bytes
        let len = *rng.pick(&[255usize, 256, 257, 65_535, 65_536, 65_537]);
        return if ascii { vec![b'q'; len] } else { gen::payload(rng, len, gen::Style::Uniform) };
    }
    let len = match rng.below(8) {
        0..=1 => 0,
        2..=4 => rng.range(1, 8),
        5..=6 => rng.range(1, 80),
        _ => rng.range(1, max),
    };
    if ascii {
        // valid UTF-8, one third of the strings with multi-byte characters
        // (byte length != char count)
        if rng.chance(1, 3) {
            let mut st = String::new();
            while st.len() < len {
                st.push(*rng.pick(&['a', 'z', 'é', 'ß', '€', '漢', '😀', 'Ω']));
            }
            st.into_bytes()
        } else {
            (0..len).map(|_| b'a' + (rng.below(26) as u8)).collect()
        }
    } else {
        gen::payload(rng, len, gen::Style::Dense)
    }
}

fn emit<'a, V: ToRoughTLV<'a>>(w: &MessageWrapper<'a, '_, V>, sink: SinkKind) -> Result<Vec<u8>, Fail> {
    match sink {
        SinkKind::Iovec => {
            let mut iov = OwningIovec::new();
            w.to_rough_tlv(&mut iov);
            iov.flatten().map_err(|_| f11("sink-pending", "OwningIovec sink has a pending backpatch".into()))
        }
        SinkKind::IovecByRef => {
            // through the blanket `impl ZeroCopySink for &mut T`
            let mut iov = OwningIovec::new();
            {
                let mut by_ref = &mut iov;
                w.to_rough_tlv(&mut by_ref);
            }
            iov.flatten().map_err(|_| f11("sink-pending", "OwningIovec sink has a pending backpatch".into()))
        }
        SinkKind::Hcobs => {
            let mut enc = hcobs::Encoder::new();
            w.to_rough_tlv(&mut enc);
            let encoded = enc.finish().flatten().map_err(|_| f11("sink-pending", "Encoder sink has a pending backpatch".into()))?;
            let mut dec = hcobs::Decoder::new();
            dec.decode_copy(&encoded).map_err(|e| Fail { props: vec!["C11", "C01"], sig: "hcobs-decode".into(), what: e.to_string() })?;
            dec.finish()
                .map_err(|e| Fail { props: vec!["C11", "C01"], sig: "hcobs-decode".into(), what: e.to_string() })?
                .flatten()
                .map_err(|_| f11("sink-pending", "Decoder output pending".into()))
        }
    }
}

/// Builds the wrapper with the chosen constructor and checks layout, length
/// and view round trip.  `entries` are in insertion order.
fn check_wrapper<'a, V>(entries: Vec<(Tag, V)>, plain: &[(u32, Vec<u8>)], ctor: Ctor, sink: SinkKind, vobs: &mut ViewObs) -> Result<(), Fail>
where
    V: ToRoughTLV<'a>,
{
    let expected = layout(plain);
    let tags_sorted = plain.windows(2).all(|w| w[0].0 <= w[1].0);
    let mut entries = entries;
    let wrapper = match ctor {
        Ctor::New => MessageWrapper::new(entries),
        Ctor::FromSlice => MessageWrapper::new_from_slice(&mut entries[..]),
        Ctor::FromSorted => {
            let r = MessageWrapper::new_from_sorted(&entries[..]);
            if !tags_sorted {
                return match r {
                    Err(_) => Ok(()),
                    Ok(_) => Err(f11("from_sorted-accepts-unsorted", "new_from_sorted accepted a list whose tags decrease".into())),
                };
            }
            r
        }
    };
    let wrapper = wrapper.map_err(|e| f11("rejects-valid", format!("constructor rejected a list within all limits: {}", e)))?;
    if wrapper.rough_tlv_len() != expected.len() {
        return Err(f11("len", format!("rough_tlv_len() = {}, the layout has {} bytes", wrapper.rough_tlv_len(), expected.len())));
    }
    let bytes = emit(&wrapper, sink)?;
    if bytes != expected {
        let d = bytes.iter().zip(expected.iter()).position(|(a, b)| a != b).unwrap_or(bytes.len().min(expected.len()));
        return Err(f11("layout", format!("emitted bytes differ from the Roughtime layout at byte {} (lengths {} vs {})", d, bytes.len(), expected.len())));
    }
    // view round trip: same pairs, same order
    let view = MessageView::new(Cow::Borrowed(&bytes[..])).map_err(|e| f11("view-rejects", format!("MessageView rejects the emitted bytes: {}", e)))?;
    let sorted = sorted_pairs(plain);
    if view.len() != sorted.len() {
        return Err(f11("view-len", format!("view has {} pairs, {} were encoded", view.len(), sorted.len())));
    }
    for (i, (item, want)) in view.iter().zip(sorted.iter()).enumerate() {
        if item.0.value() != want.0 || item.1 != &want.1[..] {
            return Err(f11("view-pair", format!("pair {} read back differs from the pair that was encoded", i)));
        }
        let g = view.get(i);
        if g.map(|(t, v)| (t.value(), v)) != Some((want.0, &want.1[..])) {
            return Err(f11("view-get", format!("get({}) differs from the encoded pair", i)));
        }
    }
    for (t, _) in sorted.iter() {
        let got = view.find(mk_tag(*t));
        let ok = sorted.iter().any(|(t2, v2)| t2 == t && Some(&v2[..]) == got);
        if !ok {
            return Err(f11("view-find", format!("find({}) does not return a value that was stored under that tag", t)));
        }
    }
    // and the generic C12 agreement checks on the emitted bytes
    // (violations of accessor agreement are C12's, not C11's)
    check_view_bytes(&bytes, false, vobs)?;
    Ok(())
}

fn run_c11_case(rng: &mut Rng, kind: Kind, ctor: Ctor, sink: SinkKind, n: usize, miri: bool, vobs: &mut ViewObs) -> Result<(usize, bool, u64), Fail> {
    let mut tags = gen_tags(rng, n);
    if ctor == Ctor::FromSorted && rng.chance(3, 4) {
        tags.sort_unstable();
    }
    let maxv = if miri { 40 } else { 600 };
    let ascii = matches!(kind, Kind::Str | Kind::CowStr);
    let values: Vec<Vec<u8>> = (0..n).map(|_| gen_value(rng, ascii, maxv)).collect();
    let repeated = {
        let mut t = tags.clone();
        t.sort_unstable();
        t.windows(2).any(|w| w[0] == w[1])
    };
    // shape of the case: relative order / equality pattern of the first tags
    // and which values are empty (what the layout's offsets and the stable
    // sort depend on)
    let shape = {
        let mut h = 0x51u64;
        for (i, t) in tags.iter().enumerate().take(10) {
            let rank = tags.iter().filter(|u| *u < t).count() as u64;
            let dup = tags.iter().take(i).any(|u| u == t) as u64;
            let empty = values[i].is_empty() as u64;
            let big = (values[i].len() > 64) as u64;
            h = mix(&[h, rank, dup, empty, big]);
        }
        h
    };
    match kind {
        Kind::Bytes => {
            let plain: Vec<(u32, Vec<u8>)> = tags.iter().copied().zip(values.iter().cloned()).collect();
            let entries: Vec<(Tag, &[u8])> = plain.iter().map(|(t, v)| (mk_tag(*t), &v[..])).collect();
            check_wrapper(entries, &plain, ctor, sink, vobs)?;
        }
        Kind::Str => {
            let strs: Vec<String> = values.iter().map(|v| String::from_utf8(v.clone()).unwrap()).collect();
            let plain: Vec<(u32, Vec<u8>)> = tags.iter().copied().zip(values.iter().cloned()).collect();
            let entries: Vec<(Tag, &str)> = tags.iter().zip(strs.iter()).map(|(t, s)| (t.into(), &s[..])).collect();
            check_wrapper(entries, &plain, ctor, sink, vobs)?;
        }
        Kind::CowBytes => {
            let plain: Vec<(u32, Vec<u8>)> = tags.iter().copied().zip(values.iter().cloned()).collect();
            let entries: Vec<(Tag, Cow<'_, [u8]>)> = plain
                .iter()
                .enumerate()
                .map(|(i, (t, v))| (mk_tag(*t), if i % 2 == 0 { Cow::Borrowed(&v[..]) } else { Cow::Owned(v.clone()) }))
                .collect();
            check_wrapper(entries, &plain, ctor, sink, vobs)?;
        }
        Kind::CowStr => {
            let strs: Vec<String> = values.iter().map(|v| String::from_utf8(v.clone()).unwrap()).collect();
            let plain: Vec<(u32, Vec<u8>)> = tags.iter().copied().zip(values.iter().cloned()).collect();
            let entries: Vec<(Tag, Cow<'_, str>)> = tags
                .iter()
                .zip(strs.iter())
                .enumerate()
                .map(|(i, (t, s))| (mk_tag(*t), if i % 2 == 1 { Cow::Borrowed(&s[..]) } else { Cow::Owned(s.clone()) }))
                .collect();
            check_wrapper(entries, &plain, ctor, sink, vobs)?;
        }
        Kind::View => {
            // values are themselves messages, wrapped as MessageView
            let inner_msgs: Vec<Vec<u8>> = (0..n)
                .map(|_| {
                    let k = rng.range(0, 3);
                    let t = gen_tags(rng, k);
                    let p: Vec<(u32, Vec<u8>)> = t.into_iter().map(|t| (t, gen_value(rng, false, 30))).collect();
                    layout(&p)
                })
                .collect();
            let plain: Vec<(u32, Vec<u8>)> = tags.iter().copied().zip(inner_msgs.iter().cloned()).collect();
            let mut entries: Vec<(Tag, MessageView<'_>)> = Vec::new();
            for (t, m) in tags.iter().zip(inner_msgs.iter()) {
                let v = MessageView::new(Cow::Borrowed(&m[..])).map_err(|e| f11("inner-view", e.to_string()))?;
                entries.push((mk_tag(*t), v));
            }
            check_wrapper(entries, &plain, ctor, sink, vobs)?;
        }
        Kind::Nested2 | Kind::Nested3 => {
            // inner wrappers over &[u8]
            let inner_plain: Vec<Vec<(u32, Vec<u8>)>> = (0..n)
                .map(|_| {
                    let k = rng.range(0, 4);
                    let t = gen_tags(rng, k);
                    t.into_iter().map(|t| (t, gen_value(rng, false, 40))).collect()
                })
                .collect();
            let inner_wrappers: Vec<MessageWrapper<'_, '_, &[u8]>> = inner_plain
                .iter()
                .map(|p| MessageWrapper::new(p.iter().map(|(t, v)| (mk_tag(*t), &v[..])).collect()))
                .collect::<Result<_, _>>()
                .map_err(|e| f11("rejects-valid", format!("inner constructor rejected: {}", e)))?;
            for (w, p) in inner_wrappers.iter().zip(inner_plain.iter()) {
                if w.rough_tlv_len() != layout(p).len() {
                    return Err(f11("nested-len", "nested wrapper's rough_tlv_len() differs from its layout length".into()));
                }
            }
            let level2_plain: Vec<(u32, Vec<u8>)> = tags.iter().copied().zip(inner_plain.iter().map(|p| layout(p))).collect();
            if kind == Kind::Nested2 {
                let entries: Vec<(Tag, &MessageWrapper<'_, '_, &[u8]>)> = tags.iter().zip(inner_wrappers.iter()).map(|(t, w)| (t.into(), w)).collect();
                check_wrapper(entries, &level2_plain, ctor, sink, vobs)?;
            } else {
                let entries: Vec<(Tag, &MessageWrapper<'_, '_, &[u8]>)> = tags.iter().zip(inner_wrappers.iter()).map(|(t, w)| (t.into(), w)).collect();
                let mid = MessageWrapper::new(entries).map_err(|e| f11("rejects-valid", e.to_string()))?;
                let mid_bytes = layout(&level2_plain);
                if mid.rough_tlv_len() != mid_bytes.len() {
                    return Err(f11("nested-len", "nested wrapper's rough_tlv_len() differs from its layout length".into()));
                }
                let outer_tags = gen_tags(rng, 2);
                let plain3: Vec<(u32, Vec<u8>)> = outer_tags.iter().map(|t| (*t, mid_bytes.clone())).collect();
                let entries3: Vec<(Tag, &MessageWrapper<'_, '_, &MessageWrapper<'_, '_, &[u8]>>)> = outer_tags.iter().map(|t| (t.into(), &mid)).collect();
                check_wrapper(entries3, &plain3, if ctor == Ctor::FromSorted { Ctor::New } else { ctor }, sink, vobs)?;
            }
        }
    }
    Ok((n, repeated, shape))
}

/// A value that only *claims* a length (never encoded): probes the limits
/// without allocating.
struct Claim(usize);

impl<'a> ToRoughTLV<'a> for Claim {
    fn to_rough_tlv<'dst, Sink>(&self, _sink: &mut Sink)
    where
        'a: 'dst,
        Sink: ZeroCopySink<'dst> + ?Sized,
    {
        panic!("harness: a length-claiming value must never be encoded");
    }
    fn rough_tlv_len(&self) -> usize {
        self.0
    }
}

/// Zero-sized value for the pair-count probe.
#[derive(Clone, Copy)]
struct Zero;

impl<'a> ToRoughTLV<'a> for Zero {
    fn to_rough_tlv<'dst, Sink>(&self, _sink: &mut Sink)
    where
        'a: 'dst,
        Sink: ZeroCopySink<'dst> + ?Sized,
    {
    }
    fn rough_tlv_len(&self) -> usize {
        0
    }
}

const IMAX: u128 = i32::MAX as u128;

fn claim_expected_ok(lens: &[usize]) -> bool {
    let n = lens.len() as u128;
    if n > IMAX {
        return false;
    }
    if lens.iter().any(|l| *l as u128 > IMAX) {
        return false;
    }
    let header = if n == 0 { 4 } else { 4 + 4 * (n - 1) + 4 * n };
    let total: u128 = header + lens.iter().map(|l| *l as u128).sum::<u128>();
    total <= IMAX
}

fn run_claim_case(lens: &[usize], tags: &[u32], ctor: Ctor) -> Result<bool, Fail> {
    let want = claim_expected_ok(lens);
    let sorted_ok = tags.windows(2).all(|w| w[0] <= w[1]);
    let mut entries: Vec<(Tag, Claim)> = tags.iter().zip(lens.iter()).map(|(t, l)| (mk_tag(*t), Claim(*l))).collect();
    let got = match ctor {
        Ctor::New => MessageWrapper::new(entries).map(|w| w.rough_tlv_len()),
        Ctor::FromSlice => MessageWrapper::new_from_slice(&mut entries[..]).map(|w| w.rough_tlv_len()),
        Ctor::FromSorted => MessageWrapper::new_from_sorted(&entries[..]).map(|w| w.rough_tlv_len()),
    };
    let want = want && (ctor != Ctor::FromSorted || sorted_ok);
    match (got, want) {
        (Ok(len), true) => {
            let n = lens.len();
            let header = if n == 0 { 4 } else { 8 * n };
            let total = header + lens.iter().sum::<usize>();
            if len != total {
                return Err(f11("claim-len", format!("rough_tlv_len() = {} for claimed lengths summing to a layout of {}", len, total)));
            }
            Ok(true)
        }
        (Err(_), false) => Ok(false),
        (Ok(_), false) => Err(f11("accepts-over-limit", format!("constructor {:?} accepted claimed lengths {:?} (tags sorted: {}) that exceed a limit", ctor, &lens[..lens.len().min(6)], sorted_ok))),
        (Err(e), true) => Err(f11("rejects-within-limit", format!("constructor {:?} rejected claimed lengths {:?} within every limit: {}", ctor, &lens[..lens.len().min(6)], e))),
    }
}

fn c11_json(idx: u64, kind: &str, detail: String) -> Json {
    Json::obj().with("kind", Json::s(kind)).with("index", Json::U(idx)).with("detail", Json::Str(detail))
}

pub fn run_c11(ctx: &mut Ctx) {
    let thorough = ctx.args.thorough();
    let miri = ctx.args.miri();
    let cases = ctx.args.cases.unwrap_or(if thorough { 4_000_000 } else { 200_000 });
    let claim_cases = ctx.args.get_u64("claim-cases", if thorough { 2_000_000 } else { 200_000 });
    let mut index = 0u64;
    for r in 0..cases {
        let idx = index;
        index += 1;
        if !ctx.mine(idx) {
            continue;
        }
        let mut rng = Rng::for_case(ctx.args.seed, "tlv-c11", r);
        let kind = KINDS[rng.usize_below(KINDS.len())];
        let ctor = *rng.pick(&[Ctor::New, Ctor::FromSlice, Ctor::FromSorted]);
        let sink = match rng.below(8) {
            0 | 1 => SinkKind::Hcobs,
            2 => SinkKind::IovecByRef,
            _ => SinkKind::Iovec,
        };
        let n = if miri {
            rng.range(0, 5)
        } else if rng.chance(1, 40) && !matches!(kind, Kind::Nested2 | Kind::Nested3 | Kind::View) {
            rng.range(50, 300)
        } else {
            rng.range(0, 8)
        };
        let detail = format!("kind={:?} ctor={:?} sink={:?} n={}", kind, ctor, sink, n);
        ctx.begin_case(idx, || c11_json(idx, "encode-view", detail.clone()));
        let mut vobs = ViewObs::default();
        let mut rng2 = rng.clone();
        let res = catch(|| run_c11_case(&mut rng2, kind, ctor, sink, n, miri, &mut vobs));
        ctx.ops += n as u64 + 1;
        match res {
            Err(p) => ctx.violate(&["C11"], &format!("panic:{}", panic_sig(&p)), format!("rough_tlv panicked: {}", p), c11_json(idx, "encode-view", detail)),
            Ok(Err(f)) => ctx.violate(&f.props, &f.sig, f.what, c11_json(idx, "encode-view", detail)),
            Ok(Ok((n, repeated, shape))) => {
                ctx.feature(&format!("tlv.c11.kind.{:?}", kind));
                ctx.feature(&format!("tlv.c11.ctor.{:?}", ctor));
                ctx.feature(&format!("tlv.c11.sink.{:?}", sink));
                if repeated {
                    ctx.feature("tlv.c11.repeated_tags");
                }
                if n == 0 {
                    ctx.feature("tlv.c11.empty_list");
                }
                if n == 1 {
                    ctx.feature("tlv.c11.single_pair");
                }
                if n >= 50 {
                    ctx.feature("tlv.c11.large_list");
                }
                ctx.signature(mix(&[kind as u64, ctor as u64, sink as u64, n.min(10) as u64, repeated as u64, vobs.accepted.min(3), shape]));
                ctx.sample(3, || c11_json(idx, "encode-view", detail.clone()));
            }
        }
        ctx.end_case(idx);
        if ctx.too_many_violations() {
            return;
        }
    }
    index = index.max(1 << 32);

    // acceptance limits with length-claiming values
    let edge: [usize; 12] = [0, 1, 4, (i32::MAX as usize) - 17, (i32::MAX as usize) - 13, (i32::MAX as usize) - 12, (i32::MAX as usize) - 9, (i32::MAX as usize) - 8, (i32::MAX as usize) - 1, i32::MAX as usize, (i32::MAX as usize) + 1, usize::MAX];
    for r in 0..claim_cases {
        let idx = index;
        index += 1;
        if !ctx.mine(idx) {
            continue;
        }
        let mut rng = Rng::for_case(ctx.args.seed, "tlv-claim", r);
        let n = rng.range(0, 5);
        let mut lens: Vec<usize> = Vec::new();
        // aim the total at the boundary: pick all but one length, then place the last near the edge
        let header = if n == 0 { 4 } else { 8 * n };
        for i in 0..n {
            if i + 1 == n && rng.chance(2, 3) {
                let sum: u128 = lens.iter().map(|l| *l as u128).sum::<u128>() + header as u128;
                let room = IMAX.saturating_sub(sum) as usize;
                let delta = rng.range(0, 4) as isize - 2;
                lens.push((room as isize + delta).max(0) as usize);
            } else {
                lens.push(match rng.below(5) {
                    0 => edge[rng.usize_below(edge.len())],
                    // lengths whose low 32 / 31 bits look harmless
                    4 => {
                        let hi = *rng.pick(&[1usize << 31, 1 << 32, 1 << 33, 3 << 32, 1 << 40, 1 << 63, usize::MAX << 32]);
                        let lo = match rng.below(3) {
                            0 => 0,
                            1 => rng.range(0, 64),
                            _ => rng.range(0, i32::MAX as usize),
                        };
                        hi.wrapping_add(lo)
                    }
                    1 => rng.range(0, 1000),
                    2 => rng.range(0, i32::MAX as usize / 2),
                    _ => rng.range(0, 100_000_000),
                });
            }
        }
        let mut tags = gen_tags(&mut rng, n);
        let ctor = *rng.pick(&[Ctor::New, Ctor::FromSlice, Ctor::FromSorted]);
        if ctor == Ctor::FromSorted && rng.chance(2, 3) {
            tags.sort_unstable();
        }
        let detail = format!("claimed lengths {:?} tags {:?} ctor {:?}", lens, tags, ctor);
        ctx.begin_case(idx, || c11_json(idx, "limits", detail.clone()));
        let res = catch(|| run_claim_case(&lens, &tags, ctor));
        ctx.ops += 1;
        match res {
            Err(p) => ctx.violate(&["C11"], &format!("panic:{}", panic_sig(&p)), format!("constructor panicked: {}", p), c11_json(idx, "limits", detail)),
            Ok(Err(f)) => ctx.violate(&f.props, &f.sig, f.what, c11_json(idx, "limits", detail)),
            Ok(Ok(accepted)) => {
                ctx.feature(if accepted { "tlv.c11.limits.accepted" } else { "tlv.c11.limits.rejected" });
                let total: u128 = header as u128 + lens.iter().map(|l| *l as u128).sum::<u128>();
                if lens.iter().any(|l| *l as u128 >= 1 << 32) {
                    ctx.feature("tlv.c11.limits.claimed_length_of_2^32_or_more");
                }
                if total == IMAX {
                    ctx.feature("tlv.c11.limits.total_exactly_i32_max");
                }
                if total == IMAX + 1 {
                    ctx.feature("tlv.c11.limits.total_one_over");
                }
                if lens.iter().any(|l| *l == i32::MAX as usize + 1) {
                    ctx.feature("tlv.c11.limits.single_value_one_over");
                }
                ctx.signature(mix(&[99, n as u64, accepted as u64, ctor as u64, (total.min(u64::MAX as u128) as u64).leading_zeros() as u64, (total == IMAX) as u64, (total == IMAX + 1) as u64]));
                if !accepted {
                    ctx.sample(4, || c11_json(idx, "limits", detail.clone()));
                }
            }
        }
        ctx.end_case(idx);
        if ctx.too_many_violations() {
            return;
        }
    }
    index = index.max(2 << 32);

    // pair-count probe (thorough, one shard): 2^28-1 pairs is the largest
    // count whose header fits in i32::MAX bytes; one more must be rejected.
    if thorough && !miri && ctx.mine(index) && ctx.args.get_u64("count-probe", 1) == 1 {
        let idx = index;
        ctx.begin_case(idx, || c11_json(idx, "pair-count", "2^28-1 and 2^28 zero-length pairs".into()));
        let avail_gib = std::fs::read_to_string("/proc/meminfo")
            .ok()
            .and_then(|s| s.lines().find(|l| l.starts_with("MemAvailable:")).and_then(|l| l.split_whitespace().nth(1).and_then(|v| v.parse::<u64>().ok())))
            .unwrap_or(0)
            / (1 << 20);
        if avail_gib < 8 {
            ctx.notes.insert("tlv.c11.pair_count_probe".into(), Json::s("skipped: less than 8 GiB available"));
        } else {
            let big = (1usize << 28) - 1;
            let res = catch(|| -> Result<(), Fail> {
                let mut v: Vec<(Tag, Zero)> = vec![(Tag::new_from_u32(7), Zero); big];
                match MessageWrapper::new_from_sorted(&v[..]) {
                    Ok(w) => {
                        if w.rough_tlv_len() != 8 * big {
                            return Err(f11("count-len", format!("rough_tlv_len() = {} for {} empty pairs", w.rough_tlv_len(), big)));
                        }
                    }
                    Err(e) => return Err(f11("rejects-within-limit", format!("{} empty pairs (layout {} bytes) rejected: {}", big, 8 * big, e))),
                }
                v.push((Tag::new_from_u32(7), Zero));
                if MessageWrapper::new_from_sorted(&v[..]).is_ok() {
                    return Err(f11("accepts-over-limit", format!("{} empty pairs (layout {} bytes > i32::MAX) accepted", big + 1, 8 * (big + 1))));
                }
                Ok(())
            });
            match res {
                Err(p) => ctx.violate(&["C11"], &format!("panic:{}", panic_sig(&p)), p, c11_json(idx, "pair-count", String::new())),
                Ok(Err(f)) => ctx.violate(&f.props, &f.sig, f.what, c11_json(idx, "pair-count", String::new())),
                Ok(Ok(())) => {
                    ctx.feature("tlv.c11.limits.pair_count_probe_2^28");
                    ctx.notes.insert("tlv.c11.pair_count_probe".into(), Json::s("ran: 2^28-1 empty pairs accepted, 2^28 rejected"));
                }
            }
        }
        ctx.end_case(idx);
    }
}

// ---------------------------------------------------------------------------
// C12 driver

fn words_to_bytes(words: &[u32]) -> Vec<u8> {
    let mut v = Vec::with_capacity(words.len() * 4);
    for w in words {
        v.extend_from_slice(&w.to_le_bytes());
    }
    v
}

fn surgery(rng: &mut Rng, msg: &mut Vec<u8>) -> &'static str {
    if msg.len() < 4 {
        return "short";
    }
    let n = le32(msg, 0) as usize;
    let le32 = |m: &Vec<u8>, w: usize| -> u32 { if 4 * w + 4 <= m.len() { le32(m, w) } else { 0 } };
    let set = |msg: &mut Vec<u8>, word: usize, v: u32| {
        if 4 * word + 4 <= msg.len() {
            msg[4 * word..4 * word + 4].copy_from_slice(&v.to_le_bytes());
        }
    };
    match rng.below(14) {
        0 => {
            set(msg, 0, 0);
            "n:=0"
        }
        1 => {
            set(msg, 0, (n as u32).wrapping_add(1));
            "n+1"
        }
        2 => {
            set(msg, 0, (n as u32).wrapping_sub(1));
            "n-1"
        }
        3 => {
            set(msg, 0, *rng.pick(&[u32::MAX, u32::MAX - 1, 0x2000_0000, 0x1FFF_FFFF, 0x8000_0000, 0x2000_0001]));
            "n huge"
        }
        4 => {
            if n >= 3 {
                let a = le32(msg, 2);
                set(msg, 1, a);
            }
            "offsets equal"
        }
        5 => {
            if n >= 3 {
                let a = le32(msg, 1);
                set(msg, 2, a.wrapping_sub(1));
            }
            "offsets decreasing"
        }
        6 | 7 | 8 => {
            if n >= 2 {
                let payload = msg.len().saturating_sub(8 * n) as u32;
                let d = [0u32, 1, u32::MAX][(rng.below(3)) as usize]; // payload len, +1, -1
                set(msg, n - 1, payload.wrapping_add(d));
            }
            "last offset at payload end +-1"
        }
        9 => {
            if n >= 2 {
                let a = le32(msg, n);
                set(msg, n + 1, a);
            }
            "tags equal"
        }
        10 => {
            if n >= 2 {
                let a = le32(msg, n + 1);
                set(msg, n, a.wrapping_add(1));
            }
            "tags decreasing"
        }
        11 => {
            msg.extend_from_slice(&[0xAB; 3][..rng.range(1, 3)]);
            "trailing bytes"
        }
        12 => {
            let k = rng.usize_below(msg.len() + 1);
            msg.truncate(k);
            "truncate"
        }
        _ => {
            let k = rng.usize_below(msg.len());
            msg[k] ^= 1 << rng.below(8);
            "bit flip"
        }
    }
}

fn c12_json(idx: u64, kind: &str, bytes: &[u8]) -> Json {
    Json::obj().with("kind", Json::s(kind)).with("index", Json::U(idx)).with("len", Json::U(bytes.len() as u64)).with("bytes", Json::hex(bytes))
}

fn record_view(ctx: &mut Ctx, obs: &ViewObs) {
    ctx.feature_n("tlv.c12.accepted", obs.accepted);
    ctx.feature_n("tlv.c12.rejected", obs.rejected);
    ctx.feature_n("tlv.c12.accepted_empty_messages", obs.empty_msgs);
    ctx.feature_n("tlv.c12.lookups_of_repeated_tags", obs.repeated_tags);
    ctx.feature_n("tlv.c12.tag_lookups", obs.finds);
    ctx.feature_n("tlv.c12.iterator_adaptors_compared_with_indexed_access", obs.iterator_adaptors);
}

pub fn run_c12(ctx: &mut Ctx) {
    let thorough = ctx.args.thorough();
    let miri = ctx.args.miri();
    let cases = ctx.args.cases.unwrap_or(if thorough { 8_000_000 } else { 400_000 });
    let sweep_words = ctx.args.get_u64("sweep-words", if thorough { 7 } else { 6 }) as usize;
    let do_sweep = ctx.args.get_u64("sweep", 1) == 1;
    let mut index = 0u64;

    if do_sweep {
        // exhaustive: all messages of up to `sweep_words` words over a small
        // word alphabet, with 0..3 trailing payload bytes
        let alphabet: [u32; 7] = [0, 1, 2, 3, 4, 8, u32::MAX];
        for nwords in 0..=sweep_words {
            let total = 7u64.pow(nwords as u32);
            for code in 0..total {
                let idx = index;
                index += 1;
                if !ctx.mine(idx) {
                    continue;
                }
                let mut words = Vec::with_capacity(nwords);
                let mut x = code;
                for _ in 0..nwords {
                    words.push(alphabet[(x % 7) as usize]);
                    x /= 7;
                }
                let base = words_to_bytes(&words);
                ctx.begin_case(idx, || c12_json(idx, "word-sweep", &base));
                let mut obs = ViewObs::default();
                let mut ok = true;
                for extra in 0..4usize {
                    let mut b = base.clone();
                    b.extend_from_slice(&[0x5A, 0x5B, 0x5C][..extra.min(3)]);
                    ctx.cases += 1;
                    if let Err(f) = check_view_bytes(&b, extra % 2 == 1, &mut obs) {
                        ctx.violate(&f.props, &f.sig, f.what, c12_json(idx, "word-sweep", &b));
                        ok = false;
                        break;
                    }
                }
                ctx.cases -= 1;
                ctx.ops += 4;
                if ok {
                    record_view(ctx, &obs);
                    if obs.accepted > 0 {
                        ctx.signature(mix(&[5, nwords as u64, code]));
                        if idx % 5003 == 0 {
                            ctx.sample(2, || c12_json(idx, "word-sweep", &base));
                        }
                    }
                }
                ctx.end_case(idx);
                if ctx.too_many_violations() {
                    return;
                }
            }
        }
        if ctx.args.only.is_none() {
            ctx.exhaustive.insert(format!("MessageView on every message of up to {} little-endian words over {{0,1,2,3,4,8,2^32-1}} x 0..3 trailing bytes", sweep_words), 1);
        }
    }
    index = index.max(1 << 32);

    for r in 0..cases {
        let idx = index;
        index += 1;
        if !ctx.mine(idx) {
            continue;
        }
        let mut rng = Rng::for_case(ctx.args.seed, "tlv-c12", r);
        // start from a valid message
        let n = if rng.chance(1, 30) && !miri { rng.range(20, 200) } else { rng.range(0, 6) };
        let tags = gen_tags(&mut rng, n);
        let plain: Vec<(u32, Vec<u8>)> = tags.into_iter().map(|t| (t, gen_value(&mut rng, false, if miri { 20 } else { 200 }))).collect();
        let mut msg = layout(&plain);
        let what = match rng.below(10) {
            0..=1 => "valid",
            2 => {
                // pure random bytes
                let l = rng.range(0, 40);
                msg = gen::payload(&mut rng, l, gen::Style::Uniform);
                "random"
            }
            _ => surgery(&mut rng, &mut msg),
        };
        if rng.chance(1, 6) {
            let _ = surgery(&mut rng, &mut msg);
        }
        ctx.begin_case(idx, || c12_json(idx, what, &msg));
        let mut obs = ViewObs::default();
        let res = check_view_bytes(&msg, rng.chance(1, 2), &mut obs);
        ctx.ops += 1;
        match res {
            Err(f) => ctx.violate(&f.props, &f.sig, f.what, c12_json(idx, what, &msg)),
            Ok(()) => {
                record_view(ctx, &obs);
                ctx.feature(&format!("tlv.c12.input.{}", what));
                ctx.signature(mix(&[6, hash_bytes(what.as_bytes()), obs.accepted, n.min(8) as u64, (msg.len() as u64).leading_zeros() as u64, obs.repeated_tags.min(2)]));
                if obs.accepted > 0 {
                    ctx.sample(3, || c12_json(idx, what, &msg));
                }
            }
        }
        ctx.end_case(idx);
        if ctx.too_many_violations() {
            return;
        }
    }
    index = index.max(2 << 32);

    // every truncation of some valid messages
    let trunc = if thorough { 2000 } else { 200 };
    for r in 0..trunc {
        let idx = index;
        index += 1;
        if !ctx.mine(idx) {
            continue;
        }
        let mut rng = Rng::for_case(ctx.args.seed, "tlv-trunc", r);
        let n = rng.range(0, 6);
        let tags = gen_tags(&mut rng, n);
        let plain: Vec<(u32, Vec<u8>)> = tags.into_iter().map(|t| (t, gen_value(&mut rng, false, 30))).collect();
        let msg = layout(&plain);
        ctx.begin_case(idx, || c12_json(idx, "all-truncations", &msg));
        let mut obs = ViewObs::default();
        let mut ok = true;
        for t in 0..=msg.len() {
            ctx.cases += 1;
            if let Err(f) = check_view_bytes(&msg[..t], t % 2 == 0, &mut obs) {
                ctx.violate(&f.props, &f.sig, f.what, c12_json(idx, "all-truncations", &msg[..t]));
                ok = false;
                break;
            }
        }
        ctx.cases -= 1;
        if ok {
            record_view(ctx, &obs);
            ctx.feature_n("tlv.c12.truncation_points", msg.len() as u64 + 1);
            ctx.signature(mix(&[7, r, msg.len() as u64]));
        }
        ctx.end_case(idx);
        if ctx.too_many_violations() {
            return;
        }
    }
}
