//! Engine `nfs` (C19): the nfs_voucher module functions, ONE history per
//! process (the module state is process-global), over files on two real
//! writable devices (the scratch directory's file system and /dev/shm) plus
//! read-only pseudo file systems.

use std::os::unix::fs::MetadataExt;
use std::os::unix::fs::PermissionsExt;
use std::path::Path;
use std::path::PathBuf;

use vouched_time::nfs_voucher;

use crate::ctx::catch;
use crate::ctx::panic_sig;
use crate::ctx::scratch_dir;
use crate::ctx::Ctx;
use crate::engines::vtime::voucher_bits;
use crate::engines::vtime::CRATE_PARAMS;
use crate::json::Json;
use crate::prng::mix;
use crate::prng::Rng;

#[derive(Clone, Copy, Debug, PartialEq, Eq)]
enum FileKind {
    OldOnA,
    FreshOnA,
    OldOnB,
    FreshOnB,
    ProcSelfStat,
    DevNull,
    TrustedPathA,
}

#[derive(Clone, Copy, Debug, PartialEq, Eq)]
enum NowKind {
    Minus10s,
    AtBase,
    Plus1993ms,
    Plus1994ms,
    Plus1h,
}

#[derive(Clone, Copy, Debug, PartialEq, Eq)]
enum Op {
    AddTrusted(bool), // true = device A, false = device B
    Observe(FileKind),
    MaybeObserve(FileKind),
    Scan,
    GetBaseTime(NowKind),
    GetUnlocked,
    Sleep(u64),
    /// add_trusted_path on a FIFO (true = device A): whatever the outcome, a
    /// failed registration must leave the base time and the trust set alone.
    AddTrustedFifo(bool),
    /// Replace the first registered trusted path by a symlink to a fresh file
    /// on the OTHER device (a mount that moved): trust is per device, so what
    /// the path resolves to now must not be believed unless that device is
    /// itself trusted.
    SwapTrustedPath,
    /// Four threads bump and observe their own files on trusted device A at
    /// the same time (observe_file_time is try_update underneath), with
    /// small injected delays before lock attempts, while this thread polls
    /// the base time: it must never be seen to decrease.
    ConcurrentObservers,
}

struct Fail {
    sig: String,
    what: String,
}

fn ctime_ms(path: &Path) -> std::io::Result<(u64, u64)> {
    let m = std::fs::metadata(path)?;
    Ok(((m.ctime() as u64) * 1000 + (m.ctime_nsec() as u64) / 1_000_000, m.dev()))
}

fn bump_ctime(path: &Path, flip: &mut bool) -> std::io::Result<()> {
    *flip = !*flip;
    std::fs::set_permissions(path, std::fs::Permissions::from_mode(if *flip { 0o600 } else { 0o640 }))
}

fn pair_ok(p: &(u64, raffle::Voucher)) -> bool {
    voucher_bits(p.1) == voucher_bits(CRATE_PARAMS.vouch(p.0))
}

#[derive(Default)]
struct Obs {
    base_moved: u64,
    untrusted_none: u64,
    old_trusted_no_move: u64,
    refreshed_by_get: u64,
    not_refreshed_by_get: u64,
    calls: u64,
    before_trust_calls: u64,
    second_device_trusted: u64,
    pseudo_fs_none: u64,
    path_swaps: u64,
    scans_with_moved_path: u64,
    failed_registrations: u64,
    fifo_registrations: u64,
    concurrent_observations: u64,
    polls_during_concurrent_observers: u64,
}

struct World {
    dir_a: PathBuf,
    dir_b: PathBuf,
    dev_a: u64,
    dev_b: u64,
    trusted_devs: Vec<u64>,
    trusted_paths: Vec<PathBuf>,
    flip: bool,
}

impl World {
    fn path(&self, k: FileKind) -> PathBuf {
        match k {
            FileKind::OldOnA => self.dir_a.join("old.file"),
            FileKind::FreshOnA => self.dir_a.join("fresh.file"),
            FileKind::OldOnB => self.dir_b.join("old.file"),
            FileKind::FreshOnB => self.dir_b.join("fresh.file"),
            FileKind::ProcSelfStat => PathBuf::from("/proc/self/stat"),
            FileKind::DevNull => PathBuf::from("/dev/null"),
            FileKind::TrustedPathA => self.dir_a.join("trusted.file"),
        }
    }
}

fn unlocked() -> Result<(u64, raffle::Voucher), Fail> {
    match catch(|| nfs_voucher::get_base_time_unlocked(time::OffsetDateTime::now_utc())) {
        Err(p) => Err(Fail { sig: format!("panic:{}", panic_sig(&p)), what: format!("get_base_time_unlocked panicked: {}", p) }),
        Ok(Err(e)) => Err(Fail { sig: "unlocked-failed".into(), what: format!("get_base_time_unlocked failed: {}", e) }),
        Ok(Ok(p)) => {
            if !pair_ok(&p) {
                return Err(Fail { sig: "bad-voucher".into(), what: format!("get_base_time_unlocked returned base {} with a voucher that does not vouch for it", p.0) });
            }
            Ok(p)
        }
    }
}

/// Records a successful registration: the module keeps ONE path per device
/// (the most recently registered one replaces the previous one).
fn register(w: &mut World, dev: u64, path: PathBuf, obs: &mut Obs) {
    if let Some(i) = w.trusted_devs.iter().position(|d| *d == dev) {
        w.trusted_paths[i] = path;
    } else {
        w.trusted_devs.push(dev);
        w.trusted_paths.push(path);
        if w.trusted_devs.len() == 2 {
            obs.second_device_trusted += 1;
        }
    }
}

/// True if some registered path still resolves to a device that is trusted.
fn usable_trusted_path(w: &World, trusted: &[u64]) -> bool {
    w.trusted_paths.iter().any(|p| ctime_ms(p).map(|(_, dev)| trusted.contains(&dev)).unwrap_or(false))
}

fn run_history(ops: &[Op], w: &mut World, obs: &mut Obs) -> Result<(), Fail> {
    let mut base = unlocked()?.0;
    if base != 0 {
        return Err(Fail { sig: "harness".into(), what: "process-global base time is not at the epoch at the start of the history".into() });
    }
    for (i, op) in ops.iter().enumerate() {
        obs.calls += 1;
        let trusted_before = w.trusted_devs.clone();
        if trusted_before.is_empty() {
            obs.before_trust_calls += 1;
        }
        // candidate change-times (device, ctime_ms) that THIS call may legitimately adopt
        let mut candidates: Vec<PathBuf> = Vec::new();
        let mut registering: Option<u64> = None;
        let mut concurrent_ctimes: Vec<u64> = Vec::new();
        let step = |what: String| format!("step {} {:?}: {}", i, op, what);
        match *op {
            Op::Sleep(ms) => std::thread::sleep(std::time::Duration::from_millis(ms)),
            Op::AddTrusted(on_a) => {
                let (dir, dev) = if on_a { (&w.dir_a, w.dev_a) } else { (&w.dir_b, w.dev_b) };
                let p = dir.join("trusted.file");
                registering = Some(dev);
                candidates.push(p.clone());
                match catch(|| nfs_voucher::add_trusted_path(p.clone())) {
                    Err(pn) => return Err(Fail { sig: format!("panic:{}", panic_sig(&pn)), what: step(format!("add_trusted_path panicked: {}", pn)) }),
                    Ok(Err(e)) => return Err(Fail { sig: "add-trusted-failed".into(), what: step(format!("add_trusted_path failed on a writable path: {}", e)) }),
                    Ok(Ok(())) => {}
                }
                register(w, dev, p, obs);
            }
            Op::Observe(k) | Op::MaybeObserve(k) => {
                let p = w.path(k);
                if matches!(k, FileKind::FreshOnA | FileKind::FreshOnB) {
                    std::thread::sleep(std::time::Duration::from_millis(2));
                    let mut fl = w.flip;
                    bump_ctime(&p, &mut fl).map_err(|e| Fail { sig: "harness-io".into(), what: e.to_string() })?;
                    w.flip = fl;
                }
                let file = match std::fs::File::open(&p) {
                    Ok(f) => f,
                    Err(_) => continue, // e.g. the trusted path does not exist yet
                };
                candidates.push(p.clone());
                if let Op::Observe(_) = op {
                    let r = catch(|| nfs_voucher::observe_file_time(&file));
                    let r = match r {
                        Err(pn) => return Err(Fail { sig: format!("panic:{}", panic_sig(&pn)), what: step(format!("observe_file_time panicked: {}", pn)) }),
                        Ok(Err(e)) => return Err(Fail { sig: "observe-failed".into(), what: step(format!("observe_file_time failed: {}", e)) }),
                        Ok(Ok(r)) => r,
                    };
                    let (ct, dev) = ctime_ms(&p).map_err(|e| Fail { sig: "harness-io".into(), what: e.to_string() })?;
                    let is_trusted = trusted_before.contains(&dev);
                    match r.1 {
                        None => {
                            if is_trusted {
                                return Err(Fail { sig: "trusted-reports-nothing".into(), what: step("observe_file_time reported nothing for a file on a trusted device".into()) });
                            }
                            obs.untrusted_none += 1;
                            if matches!(k, FileKind::ProcSelfStat | FileKind::DevNull) {
                                obs.pseudo_fs_none += 1;
                            }
                        }
                        Some(pair) => {
                            if !is_trusted {
                                return Err(Fail { sig: "untrusted-reports".into(), what: step(format!("observe_file_time reported base {} for a file on device {} which is not trusted", pair.0, dev)) });
                            }
                            if !pair_ok(&pair) {
                                return Err(Fail { sig: "bad-voucher".into(), what: step("observe_file_time returned a pair whose voucher does not vouch for its base".into()) });
                            }
                            if pair.0 != ct {
                                return Err(Fail { sig: "wrong-ctime".into(), what: step(format!("observe_file_time reported {} but the file's change-time is {} ms", pair.0, ct)) });
                            }
                        }
                    }
                } else {
                    if let Err(pn) = catch(|| nfs_voucher::maybe_observe_file_time(&file)) {
                        return Err(Fail { sig: format!("panic:{}", panic_sig(&pn)), what: step(format!("maybe_observe_file_time panicked: {}", pn)) });
                    }
                }
            }
            Op::AddTrustedFifo(on_a) => {
                let (dir, dev) = if on_a { (&w.dir_a, w.dev_a) } else { (&w.dir_b, w.dev_b) };
                let p = dir.join("trusted.fifo");
                if !p.exists() {
                    let c = std::ffi::CString::new(p.to_string_lossy().as_bytes()).unwrap();
                    if unsafe { libc::mkfifo(c.as_ptr(), 0o600) } != 0 {
                        continue;
                    }
                }
                registering = Some(dev);
                candidates.push(p.clone());
                match catch(|| nfs_voucher::add_trusted_path(p.clone())) {
                    Err(pn) => return Err(Fail { sig: format!("panic:{}", panic_sig(&pn)), what: step(format!("add_trusted_path panicked: {}", pn)) }),
                    Ok(Err(_)) => {
                        // refused: nothing may have changed
                        registering = None;
                        obs.failed_registrations += 1;
                        if !w.trusted_devs.contains(&dev) {
                            // later calls must still treat the device as untrusted (checked by the usual rules)
                        }
                    }
                    Ok(Ok(())) => {
                        register(w, dev, p, obs);
                        obs.fifo_registrations += 1;
                    }
                }
            }
            Op::SwapTrustedPath => {
                if let Some(p) = w.trusted_paths.first().cloned() {
                    let on_a = p.starts_with(&w.dir_a);
                    let target = if on_a { w.path(FileKind::FreshOnB) } else { w.path(FileKind::FreshOnA) };
                    let mut fl = w.flip;
                    std::thread::sleep(std::time::Duration::from_millis(2));
                    bump_ctime(&target, &mut fl).map_err(|e| Fail { sig: "harness-io".into(), what: e.to_string() })?;
                    w.flip = fl;
                    let _ = std::fs::remove_file(&p);
                    std::os::unix::fs::symlink(&target, &p).map_err(|e| Fail { sig: "harness-io".into(), what: e.to_string() })?;
                    obs.path_swaps += 1;
                }
            }
            Op::Scan => {
                candidates.extend(w.trusted_paths.iter().cloned());
                match catch(nfs_voucher::scan_base_time) {
                    Err(pn) => return Err(Fail { sig: format!("panic:{}", panic_sig(&pn)), what: step(format!("scan_base_time panicked: {}", pn)) }),
                    Ok(Err(e)) => {
                        if usable_trusted_path(w, &trusted_before) || trusted_before.is_empty() {
                            return Err(Fail { sig: "scan-failed".into(), what: step(format!("scan_base_time failed ({} trusted device(s)): {}", trusted_before.len(), e)) });
                        }
                        obs.scans_with_moved_path += 1;
                    }
                    Ok(Ok(())) => {}
                }
            }
            Op::GetBaseTime(nk) => {
                candidates.extend(w.trusted_paths.iter().cloned());
                let now_ms: i128 = match nk {
                    NowKind::Minus10s => base as i128 - 10_000,
                    NowKind::AtBase => base as i128,
                    NowKind::Plus1993ms => base as i128 + 1_993,
                    NowKind::Plus1994ms => base as i128 + 1_994,
                    NowKind::Plus1h => base as i128 + 3_600_000,
                };
                let now = time::OffsetDateTime::from_unix_timestamp_nanos(now_ms.max(0) * 1_000_000).map_err(|e| Fail { sig: "harness".into(), what: e.to_string() })?;
                match catch(|| nfs_voucher::get_base_time(now)) {
                    Err(pn) => return Err(Fail { sig: format!("panic:{}", panic_sig(&pn)), what: step(format!("get_base_time panicked: {}", pn)) }),
                    Ok(Err(e)) => {
                        if usable_trusted_path(w, &trusted_before) || trusted_before.is_empty() {
                            return Err(Fail { sig: "get-failed".into(), what: step(format!("get_base_time failed ({} trusted device(s)): {}", trusted_before.len(), e)) });
                        }
                        obs.scans_with_moved_path += 1;
                    }
                    Ok(Ok(pair)) => {
                        if !pair_ok(&pair) {
                            return Err(Fail { sig: "bad-voucher".into(), what: step("get_base_time returned a pair whose voucher does not vouch for its base".into()) });
                        }
                    }
                }
            }
            Op::ConcurrentObservers => {
                if !trusted_before.contains(&w.dev_a) {
                    continue;
                }
                use std::sync::atomic::{AtomicBool, AtomicU64, Ordering};
                use std::sync::Arc;
                // Delay injection through H3: half of the lock attempts and
                // of the first loads are preceded by a short sleep, which
                // widens any window between a staleness check and the commit.
                vouched_time::verif_sync::set_callback(Some(Box::new(|ev: &vouched_time::verif_sync::Event| {
                    thread_local! { static X: std::cell::Cell<u64> = const { std::cell::Cell::new(0x9E37_79B9_7F4A_7C15) }; }
                    if ev.after {
                        return;
                    }
                    let r = X.with(|x| {
                        let mut v = x.get() ^ (ev.object as u64);
                        v ^= v << 13;
                        v ^= v >> 7;
                        v ^= v << 17;
                        x.set(v);
                        v
                    });
                    if matches!(ev.op, vouched_time::verif_sync::Op::TryLock | vouched_time::verif_sync::Op::Lock) && r % 2 == 0 {
                        std::thread::sleep(std::time::Duration::from_micros(50 + r % 400));
                    }
                })));
                let done = Arc::new(AtomicBool::new(false));
                let observed = Arc::new(AtomicU64::new(0));
                let all_ctimes: Arc<std::sync::Mutex<Vec<u64>>> = Arc::new(std::sync::Mutex::new(Vec::new()));
                let mut handles = Vec::new();
                for t in 0..4u64 {
                    let path = w.dir_a.join(format!("conc-{}.file", t));
                    std::fs::write(&path, b"x").map_err(|e| Fail { sig: "harness-io".into(), what: e.to_string() })?;
                    let observed = observed.clone();
                    let all_ctimes = all_ctimes.clone();
                    handles.push(std::thread::spawn(move || -> Result<(), String> {
                        let mut flip = false;
                        for _ in 0..30 {
                            bump_ctime(&path, &mut flip).map_err(|e| e.to_string())?;
                            let file = std::fs::File::open(&path).map_err(|e| e.to_string())?;
                            if let Ok((ct, _)) = ctime_ms(&path) {
                                all_ctimes.lock().unwrap().push(ct);
                            }
                            match catch(|| nfs_voucher::observe_file_time(&file)) {
                                Err(p) => return Err(format!("observe_file_time panicked: {}", p)),
                                Ok(Err(e)) => return Err(format!("observe_file_time failed: {}", e)),
                                Ok(Ok(r)) => {
                                    if let Some(pair) = r.1 {
                                        if !pair_ok(&pair) {
                                            return Err("observe_file_time returned a pair whose voucher does not vouch for its base".into());
                                        }
                                    }
                                }
                            }
                            observed.fetch_add(1, Ordering::Relaxed);
                            std::thread::sleep(std::time::Duration::from_micros(700));
                        }
                        Ok(())
                    }));
                }
                let done2 = done.clone();
                let mut last = base;
                let mut verdict: Result<(), Fail> = Ok(());
                let poller_deadline = std::time::Instant::now() + std::time::Duration::from_secs(20);
                while !done2.load(Ordering::Relaxed) {
                    let p = unlocked()?;
                    obs.polls_during_concurrent_observers += 1;
                    if p.0 < last && verdict.is_ok() {
                        verdict = Err(Fail { sig: "base-decreased".into(), what: step(format!("while four threads observed fresh files concurrently, the base time went from {} back to {}", last, p.0)) });
                    }
                    last = last.max(p.0);
                    if handles.iter().all(|h| h.is_finished()) || std::time::Instant::now() > poller_deadline {
                        done.store(true, Ordering::Relaxed);
                    }
                }
                for h in handles {
                    match h.join() {
                        Ok(Ok(())) => {}
                        Ok(Err(e)) if verdict.is_ok() => verdict = Err(Fail { sig: "concurrent-observer".into(), what: step(e) }),
                        _ => {}
                    }
                }
                vouched_time::verif_sync::set_callback(None);
                verdict?;
                obs.concurrent_observations += observed.load(Ordering::Relaxed);
                concurrent_ctimes = all_ctimes.lock().unwrap().clone();
                let end = unlocked()?.0;
                if end < last {
                    return Err(Fail { sig: "base-decreased".into(), what: step(format!("after the concurrent observers finished the base time is {} although {} had been seen", end, last)) });
                }
            }
            Op::GetUnlocked => {
                let p = unlocked()?;
                if p.0 != base {
                    return Err(Fail { sig: "unlocked-moved".into(), what: step(format!("get_base_time_unlocked returned {} but the base was {}", p.0, base)) });
                }
            }
        }

        // After every call: monotone, and any change has trusted provenance.
        let after = unlocked()?.0;
        if after < base {
            return Err(Fail { sig: "base-decreased".into(), what: step(format!("base time went from {} back to {}", base, after)) });
        }
        if after != base {
            // (concurrent observers: any change-time one of their files had)
            let mut explained = concurrent_ctimes.contains(&after);
            let mut seen = Vec::new();
            for c in &candidates {
                if let Ok((ct, dev)) = ctime_ms(c) {
                    seen.push((ct, dev));
                    let trusted = trusted_before.contains(&dev) || registering == Some(dev);
                    if trusted && ct == after {
                        explained = true;
                    }
                }
            }
            if !explained {
                return Err(Fail {
                    sig: "untrusted-provenance".into(),
                    what: step(format!(
                        "base time moved from {} to {}, which is not the change-time of any file this call could have examined on a trusted device (candidates (ctime_ms, dev): {:?}; trusted devices before: {:?}; registering: {:?})",
                        base, after, seen, trusted_before, registering
                    )),
                });
            }
            obs.base_moved += 1;
            if let Op::GetBaseTime(_) = op {
                obs.refreshed_by_get += 1;
            }
        } else {
            match op {
                Op::Observe(FileKind::OldOnA) | Op::Observe(FileKind::OldOnB) => {
                    let dev = if matches!(op, Op::Observe(FileKind::OldOnA)) { w.dev_a } else { w.dev_b };
                    if trusted_before.contains(&dev) {
                        obs.old_trusted_no_move += 1;
                    }
                }
                Op::GetBaseTime(_) => obs.not_refreshed_by_get += 1,
                _ => {}
            }
        }
        if trusted_before.is_empty() && registering.is_none() && after != 0 {
            return Err(Fail { sig: "moved-before-trust".into(), what: step(format!("base time became {} before any device was trusted", after)) });
        }
        base = after;
    }
    Ok(())
}

fn gen_ops(rng: &mut Rng) -> Vec<Op> {
    let n = rng.range(5, 40);
    let mut ops = Vec::new();
    let trust_at = rng.range(0, 6);
    let a_first = rng.chance(1, 2);
    let second_at = if rng.chance(1, 3) { Some(trust_at + rng.range(2, 12)) } else { None };
    let files = [FileKind::OldOnA, FileKind::FreshOnA, FileKind::OldOnB, FileKind::FreshOnB, FileKind::ProcSelfStat, FileKind::DevNull, FileKind::FreshOnA, FileKind::FreshOnB, FileKind::TrustedPathA];
    let nows = [NowKind::Minus10s, NowKind::AtBase, NowKind::Plus1993ms, NowKind::Plus1994ms, NowKind::Plus1h];
    for i in 0..n {
        if i == trust_at {
            ops.push(Op::AddTrusted(a_first));
        }
        if Some(i) == second_at {
            ops.push(if rng.chance(1, 3) { Op::AddTrustedFifo(!a_first) } else { Op::AddTrusted(!a_first) });
        }
        if i + 1 == trust_at && rng.chance(1, 4) {
            // a special file offered for registration before anything is trusted
            ops.push(Op::AddTrustedFifo(!a_first));
        }
        if i > trust_at + 1 && rng.chance(1, 40) {
            ops.push(Op::ConcurrentObservers);
        }
        let op = match rng.below(12) {
            0..=4 => Op::Observe(files[rng.usize_below(files.len())]),
            5 => Op::MaybeObserve(files[rng.usize_below(files.len())]),
            6 => Op::Scan,
            7..=8 => Op::GetBaseTime(nows[rng.usize_below(nows.len())]),
            9 => Op::GetUnlocked,
            10 => Op::Sleep(rng.range(1, 4) as u64),
            _ => {
                if i > trust_at + 2 && rng.chance(1, 3) {
                    Op::SwapTrustedPath
                } else {
                    Op::Sleep(if rng.chance(1, 6) { 101 } else { 2 })
                }
            }
        };
        ops.push(op);
    }
    ops
}

fn writable_dir(base: &Path, tag: &str) -> std::io::Result<(PathBuf, u64)> {
    let d = base.join(tag);
    std::fs::create_dir_all(&d)?;
    let dev = std::fs::metadata(&d)?.dev();
    Ok((d, dev))
}

pub fn run(ctx: &mut Ctx) {
    let cases = ctx.args.cases.unwrap_or(200);
    // exactly one history per process
    let mine: Vec<u64> = (0..cases).filter(|i| ctx.mine(*i)).collect();
    if mine.len() != 1 {
        if mine.is_empty() {
            return;
        }
        ctx.inconclusive(format!("nfs engine must run exactly one history per process (got {}); use shards == cases", mine.len()));
        return;
    }
    let idx = mine[0];
    let mut rng = Rng::for_case(ctx.args.seed, "nfs", idx);
    let tag = format!("wpmon-nfs-{}-{}", std::process::id(), idx);
    let a = writable_dir(&scratch_dir(), &tag);
    let b = writable_dir(Path::new("/dev/shm"), &tag);
    let ((dir_a, dev_a), (dir_b, dev_b)) = match (a, b) {
        (Ok(a), Ok(b)) => (a, b),
        (a, b) => {
            ctx.inconclusive(format!("need two writable directories on different devices: {:?} {:?}", a.err(), b.err()));
            return;
        }
    };
    let cleanup = |a: &Path, b: &Path| {
        let _ = std::fs::remove_dir_all(a);
        let _ = std::fs::remove_dir_all(b);
    };
    if dev_a == dev_b {
        cleanup(&dir_a, &dir_b);
        ctx.inconclusive("the scratch directory and /dev/shm are on the same device".into());
        return;
    }
    let mut w = World { dir_a: dir_a.clone(), dir_b: dir_b.clone(), dev_a, dev_b, trusted_devs: Vec::new(), trusted_paths: Vec::new(), flip: false };
    for k in [FileKind::OldOnA, FileKind::FreshOnA, FileKind::OldOnB, FileKind::FreshOnB] {
        if let Err(e) = std::fs::write(w.path(k), b"x") {
            cleanup(&dir_a, &dir_b);
            ctx.inconclusive(format!("cannot create test files: {}", e));
            return;
        }
    }
    // make sure "old" files are older (in ms) than anything that happens later
    std::thread::sleep(std::time::Duration::from_millis(3));
    let ops = gen_ops(&mut rng);
    let case = |ops: &[Op]| {
        Json::obj()
            .with("kind", Json::s("nfs-history"))
            .with("index", Json::U(idx))
            .with("device_a", Json::U(dev_a))
            .with("device_b", Json::U(dev_b))
            .with("ops", Json::Arr(ops.iter().map(|o| Json::Str(format!("{:?}", o))).collect()))
    };
    ctx.begin_case(idx, || case(&ops));
    let mut obs = Obs::default();
    let res = run_history(&ops, &mut w, &mut obs);
    ctx.ops += obs.calls;
    match res {
        Err(f) if f.sig == "harness" || f.sig == "harness-io" => ctx.inconclusive(f.what),
        Err(f) => ctx.violate(&["C19"], &f.sig, f.what, case(&ops)),
        Ok(()) => {
            ctx.feature_n("nfs.calls_checked", obs.calls);
            ctx.feature_n("nfs.base_time_moved", obs.base_moved);
            ctx.feature_n("nfs.untrusted_device_reported_nothing", obs.untrusted_none);
            ctx.feature_n("nfs.pseudo_fs_reported_nothing", obs.pseudo_fs_none);
            ctx.feature_n("nfs.older_trusted_file_did_not_move_base", obs.old_trusted_no_move);
            ctx.feature_n("nfs.get_base_time_refreshed", obs.refreshed_by_get);
            ctx.feature_n("nfs.get_base_time_did_not_refresh", obs.not_refreshed_by_get);
            ctx.feature_n("nfs.calls_before_any_trust", obs.before_trust_calls);
            ctx.feature_n("nfs.second_device_trusted", obs.second_device_trusted);
            ctx.feature_n("nfs.trusted_path_swapped_to_other_device", obs.path_swaps);
            ctx.feature_n("nfs.fifo_offered_for_registration_accepted", obs.fifo_registrations);
            ctx.feature_n("nfs.observations_made_by_concurrent_threads", obs.concurrent_observations);
            ctx.feature_n("nfs.base_time_polls_during_concurrent_observers", obs.polls_during_concurrent_observers);
            ctx.feature_n("nfs.fifo_offered_for_registration_refused", obs.failed_registrations);
            ctx.feature_n("nfs.refresh_failed_because_path_moved", obs.scans_with_moved_path);
            ctx.signature(mix(&[obs.base_moved.min(12), obs.untrusted_none.min(6), obs.old_trusted_no_move.min(3), obs.refreshed_by_get.min(3), obs.not_refreshed_by_get.min(3), obs.before_trust_calls.min(6), obs.second_device_trusted, obs.path_swaps.min(2), obs.scans_with_moved_path.min(2), (ops.len() / 8) as u64]));
            if idx < 3 {
                ctx.sample(1, || case(&ops));
            }
        }
    }
    ctx.end_case(idx);
    cleanup(&dir_a, &dir_b);
}
