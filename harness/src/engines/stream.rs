//! Engine `stream`: StreamChunker::pump (C08) and
//! StreamReader::next_record_bytes (C06) behind a hostile scripted reader,
//! with the exposed-slice monitor (C05) and drop accounting (C10).

use std::ops::Range;

use hcobs::Chunk;
use hcobs::StreamAction;
use hcobs::StreamChunker;
use hcobs::StreamReader;
use owning_iovec::AnchoredSlice;
use owning_iovec::ByteArena;
use owning_iovec::ConsumingIovec;

use crate::ctx::catch;
use crate::ctx::panic_sig;
use crate::ctx::Ctx;
use crate::expose;
use crate::expose::ExposeStats;
use crate::expose::Owned;
use crate::gen;
use crate::hcobs_ref;
use crate::json::Json;
use crate::prng::mix;
use crate::prng::Rng;
use crate::reader::benign_script;
use crate::reader::ScriptedReader;
use crate::reader::Step;
use crate::reader::Tail;

pub struct Fail {
    pub props: Vec<&'static str>,
    pub sig: String,
    pub what: String,
}

fn fail(props: &[&'static str], sig: &str, what: String) -> Fail {
    Fail { props: props.to_vec(), sig: sig.to_string(), what }
}

/// Leftmost, non-overlapping FE FD occurrences.
pub fn delimiters(stream: &[u8]) -> Vec<usize> {
    let mut v = Vec::new();
    let mut i = 0;
    while i + 1 < stream.len() {
        if stream[i] == 0xFE && stream[i + 1] == 0xFD {
            v.push(i);
            i += 2;
        } else {
            i += 1;
        }
    }
    v
}

/// Maximal stuff-sequence-free segments (possibly empty), in order.
pub fn segments(stream: &[u8]) -> Vec<Range<usize>> {
    let mut segs = Vec::new();
    let mut start = 0;
    for d in delimiters(stream) {
        segs.push(start..d);
        start = d + 2;
    }
    segs.push(start..stream.len());
    segs
}

// ---------------------------------------------------------------------------
// Stream generation

fn no_stuff_garbage(rng: &mut Rng, len: usize) -> Vec<u8> {
    let mut v = gen::payload(rng, len, gen::Style::Dense);
    for i in 1..v.len() {
        if v[i - 1] == 0xFE && v[i] == 0xFD {
            v[i] = 0xFC;
        }
    }
    v
}

fn gen_payload(rng: &mut Rng, big_ok: bool) -> Vec<u8> {
    let len = match rng.below(20) {
        0..=2 => 0,
        3..=9 => rng.range(1, 12),
        10..=14 => rng.range(1, 60),
        15..=16 => rng.range(240, 270),
        17 => rng.range(1, 2000),
        18 => {
            if big_ok {
                rng.range(63_990, 64_300)
            } else {
                rng.range(1, 300)
            }
        }
        _ => rng.range(1, 600),
    };
    let style = *rng.pick(&gen::STYLES);
    gen::payload(rng, len, style)
}

/// Streams whose segments end right around a power-of-two offset (4 KiB,
/// 64 KiB, the 512 KiB default block): internal windows and block sizes are
/// powers of two, so delimiters straddling such offsets are the hostile case.
pub fn gen_boundary_stream(rng: &mut Rng) -> Vec<u8> {
    let mut s = Vec::new();
    // (the arena's largest regular chunk is 1 MiB; a reader block may be as large)
    let boundary = *rng.pick(&[4096usize, 65_536, 65_536, 524_288, 8192, 131_072, 4096, 65_536, 131_072, 524_288, 1_048_576, 2_097_152]);
    let lead = rng.range(0, 3);
    for _ in 0..lead {
        let p = gen_payload(rng, false);
        s.extend_from_slice(&hcobs_ref::encode(&p, 252, 64008));
        s.extend_from_slice(&[0xFE, 0xFD]);
    }
    // a segment (valid record or garbage) sized so that the following
    // delimiter starts within +-3 bytes of the boundary, measured from the
    // stream start or from the segment start
    let from_start = rng.chance(1, 2);
    let base = if from_start { s.len() } else { 0 };
    let target = (boundary + rng.range(0, 6)).saturating_sub(3);
    let seg_len = target.saturating_sub(base).max(1);
    if rng.chance(1, 2) && seg_len > 600 {
        // a valid record of exactly seg_len encoded bytes (no FE FD inside the payload)
        let mut payload_len = seg_len.saturating_sub(1 + 2 * (seg_len / 64008 + 1));
        let mut tries = 0;
        loop {
            let payload = gen::payload(rng, payload_len, gen::Style::NoFe);
            let e = hcobs_ref::encode(&payload, 252, 64008);
            tries += 1;
            // (some lengths are unreachable when a chunk is exactly full: settle after a few tries)
            if e.len() == seg_len || payload_len == 0 || tries > 6 {
                s.extend_from_slice(&e);
                break;
            }
            if e.len() > seg_len {
                payload_len -= e.len() - seg_len;
            } else {
                payload_len += seg_len - e.len();
            }
        }
    } else {
        s.extend_from_slice(&no_stuff_garbage(rng, seg_len));
        let n = s.len();
        if s[n - 1] == 0xFE {
            s[n - 1] = 0x41;
        }
    }
    s.extend_from_slice(&[0xFE, 0xFD]);
    for _ in 0..rng.range(1, 3) {
        let p = gen_payload(rng, false);
        s.extend_from_slice(&hcobs_ref::encode(&p, 252, 64008));
        if rng.chance(2, 3) {
            s.extend_from_slice(&[0xFE, 0xFD]);
        }
    }
    s
}

pub fn gen_stream(rng: &mut Rng, big_ok: bool) -> Vec<u8> {
    if big_ok && rng.chance(1, 2) {
        return gen_boundary_stream(rng);
    }
    let mut s = Vec::new();
    let items = rng.range(0, 10);
    if rng.chance(1, 12) {
        s.push(0xFD); // leading FD
    }
    for _ in 0..items {
        match rng.below(12) {
            0..=4 => {
                let p = gen_payload(rng, big_ok);
                s.extend_from_slice(&hcobs_ref::encode(&p, 252, 64008));
                s.extend_from_slice(&[0xFE, 0xFD]);
            }
            5 => {
                // valid record without a delimiter after it
                let p = gen_payload(rng, false);
                s.extend_from_slice(&hcobs_ref::encode(&p, 252, 64008));
            }
            6 => {
                for _ in 0..rng.range(1, 3) {
                    s.extend_from_slice(&[0xFE, 0xFD]);
                }
            }
            7 => {
                let n = rng.range(1, 40);
                s.extend_from_slice(&no_stuff_garbage(rng, n));
                if rng.chance(1, 2) {
                    s.extend_from_slice(&[0xFE, 0xFD]);
                }
            }
            8 => {
                // torn prefix of a valid record
                let p = gen_payload(rng, big_ok);
                let e = hcobs_ref::encode(&p, 252, 64008);
                let k = rng.usize_below(e.len() + 1);
                s.extend_from_slice(&e[..k]);
                if rng.chance(2, 3) {
                    s.extend_from_slice(&[0xFE, 0xFD]);
                }
            }
            9 => {
                // single-byte corruption
                let p = gen_payload(rng, false);
                let mut e = hcobs_ref::encode(&p, 252, 64008);
                let k = rng.usize_below(e.len());
                e[k] = *rng.pick(&[0xFDu8, 0xFE, 0xFF, 0x00, 0x01]);
                s.extend_from_slice(&e);
                s.extend_from_slice(&[0xFE, 0xFD]);
            }
            10 => s.push(0xFE),
            _ => {
                // FE FE FD and friends
                let opts: [&[u8]; 4] = [&[0xFE, 0xFE, 0xFD], &[0xFE, 0xFD, 0xFD], &[0xFD, 0xFE, 0xFD, 0xFE], &[0xFE, 0xFD, 0xFE]];
                s.extend_from_slice(opts[rng.usize_below(4)]);
            }
        }
    }
    if rng.chance(1, 10) {
        s.push(0xFE); // lone trailing FE
    }
    s
}

/// rec1 FEFD rec2 FEFD ... truncated at `cut`.
pub fn gen_log(rng: &mut Rng, records: usize) -> Vec<u8> {
    let mut s = Vec::new();
    for _ in 0..records {
        let p = gen_payload(rng, false);
        s.extend_from_slice(&hcobs_ref::encode(&p, 252, 64008));
        s.extend_from_slice(&[0xFE, 0xFD]);
    }
    s
}

const BLOCKS: [Option<usize>; 12] = [Some(0), Some(1), Some(2), Some(3), Some(4), Some(5), Some(8), Some(64), Some(4096), None, Some(2), Some(7)];

fn gen_reader_script(rng: &mut Rng, stream_len: usize, hard_errors: bool) -> Vec<Step> {
    if hard_errors && rng.chance(1, 6) {
        // Hard (non-EINTR) errors: mostly right after a delivery, i.e. inside
        // a refill that already holds bytes (the arena read then reports a
        // short read and swallows the error), sometimes before any byte (the
        // pump call fails and the caller pumps again).
        let mut v = Vec::new();
        for _ in 0..rng.range(1, 40) {
            match rng.below(8) {
                0..=2 => {
                    v.push(Step::Deliver(rng.range(1, 9)));
                    v.push(Step::Fail(*rng.pick(&[std::io::ErrorKind::WouldBlock, std::io::ErrorKind::TimedOut, std::io::ErrorKind::Other])));
                }
                3 => v.push(Step::Fail(std::io::ErrorKind::WouldBlock)),
                4 => v.push(Step::Interrupted),
                5 => v.push(Step::Fill),
                _ => v.push(Step::Deliver(rng.range(1, 5))),
            }
        }
        return v;
    }
    match rng.below(6) {
        0 => Vec::new(), // full reads
        5 => {
            // EINTR storms: long runs of interrupted calls between deliveries
            let mut v = Vec::new();
            for _ in 0..rng.range(1, 12) {
                for _ in 0..rng.range(0, 6) {
                    v.push(if rng.chance(1, 2) { Step::Deliver(rng.range(1, 9)) } else { Step::Fill });
                }
                // (rarely: more interruptions in a row than any 16-bit retry counter holds)
                let n = if !cfg!(miri) && rng.chance(1, 100) { rng.range(65_530, 70_000) } else { rng.range(1, 300) };
                for _ in 0..n {
                    v.push(Step::Interrupted);
                }
            }
            v
        }
        1 => {
            // all single bytes with EINTR sprinkled in
            let mut v = Vec::new();
            for _ in 0..stream_len.min(4000) {
                if rng.chance(1, 8) {
                    v.push(Step::Interrupted);
                }
                v.push(Step::Deliver(1));
            }
            v
        }
        _ => benign_script(rng, (stream_len / 2 + 2).min(3000), 9),
    }
}

#[derive(Clone, Copy, Debug, PartialEq, Eq)]
enum ArenaMode {
    Fresh,
    NearlyFull,
    FlushBetween,
    SwapBetween,
}

// ---------------------------------------------------------------------------
// C08

#[derive(Default)]
struct ChunkObs {
    data: u64,
    sentinels: u64,
    fe_held_back: u64,
    trailing_fe_at_eof: u64,
    fe_fe_fd: u64,
    pumps: u64,
    expose: ExposeStats,
    interrupts: u64,
    block_changes: u64,
    pump_errors: u64,
    swallowed_errors: u64,
}

fn run_chunker(stream: &[u8], script: Vec<Step>, block: usize, arena_mode: ArenaMode, seed: u64, obs: &mut ChunkObs) -> Result<(), Fail> {
    let base_chunks = ByteArena::num_live_chunks();
    let base_bytes = ByteArena::num_live_bytes();
    let mut owned = Owned::new();
    owned.add(stream);
    {
        let mut rng = Rng::new(seed);
        let script_failures = script.iter().filter(|s| matches!(s, Step::Fail(_))).count();
        let mut reader = ScriptedReader::new(stream, script, Tail::ServeAll);
        reader.log_calls = false;
        let mut arena = ByteArena::new();
        if arena_mode == ArenaMode::NearlyFull {
            arena.ensure_capacity(4096);
            let fill = arena.remaining().saturating_sub(rng.range(0, 3));
            let empty: &[u8] = &vec![0x55u8; fill];
            let _ = arena.read_n(empty, fill, std::num::NonZeroUsize::MAX);
        }
        let mut spare = ByteArena::new();
        let mut chunker = StreamChunker::default();
        let mut pos = 0usize;
        let mut prev_data_last: Option<u8> = None;
        let mut held: Vec<(usize, AnchoredSlice)> = Vec::new();
        let max_pumps = stream.len() * 2 + 16 + script_failures;
        let mut eof_seen = 0;
        loop {
            obs.pumps += 1;
            if obs.pumps as usize > max_pumps + 8 && eof_seen == 0 {
                return Err(fail(&["C08"], "no-eof", format!("no Eof after {} pumps on a {}-byte stream", max_pumps, stream.len())));
            }
            // The block size is a per-call argument: a quarter of the cases
            // change it from pump to pump.
            let this_block = if seed % 4 == 3 { [0usize, 1, 2, 3, 5, 8, 64, 4096][rng.usize_below(8)] } else { block };
            if this_block != block {
                obs.block_changes += 1;
            }
            let failures_before = reader.failures;
            let chunk = match chunker.pump(&mut arena, &mut reader, this_block) {
                Ok(c) => c,
                Err(e) => {
                    // Only a scripted hard error that this very call ran into
                    // may surface; the caller then simply pumps again.
                    if reader.failures > failures_before && e.kind() != std::io::ErrorKind::Interrupted {
                        obs.pump_errors += 1;
                        if obs.pump_errors as usize > script_failures {
                            return Err(fail(&["C08", "C17"], "pump-err", format!("pump failed more often ({}) than the reader did ({})", obs.pump_errors, script_failures)));
                        }
                        continue;
                    }
                    return Err(fail(&["C08", "C17"], "pump-err", format!("pump failed on a benign reader: {}", e)));
                }
            };
            match chunk {
                Chunk::Eof => {
                    if pos != stream.len() {
                        return Err(fail(&["C08"], "early-eof", format!("Eof at position {} of a {}-byte stream", pos, stream.len())));
                    }
                    if reader.remaining() != 0 {
                        return Err(fail(&["C08"], "early-eof", "Eof before the reader delivered everything".into()));
                    }
                    eof_seen += 1;
                    if eof_seen >= 3 {
                        break;
                    }
                    continue;
                }
                Chunk::Sentinel(off) => {
                    if eof_seen > 0 {
                        return Err(fail(&["C08"], "chunk-after-eof", "a chunk was returned after Eof".into()));
                    }
                    if pos + 2 > stream.len() || stream[pos] != 0xFE || stream[pos + 1] != 0xFD {
                        return Err(fail(&["C08"], "sentinel-misplaced", format!("Sentinel reported at position {} where the stream has no FE FD", pos)));
                    }
                    if off != (pos + 2) as u64 {
                        return Err(fail(&["C08"], "sentinel-offset", format!("Sentinel offset {} but the chunk ends at {}", off, pos + 2)));
                    }
                    pos += 2;
                    prev_data_last = None;
                    obs.sentinels += 1;
                }
                Chunk::Data((off, slice)) => {
                    if eof_seen > 0 {
                        return Err(fail(&["C08"], "chunk-after-eof", "a chunk was returned after Eof".into()));
                    }
                    let d = slice.slice();
                    if d.is_empty() {
                        return Err(fail(&["C08"], "empty-data", format!("empty Data chunk at position {}", pos)));
                    }
                    expose::check_one(d, &owned, &mut obs.expose).map_err(|e| fail(&["C05"], "expose-chunk", e))?;
                    if pos + d.len() > stream.len() || &stream[pos..pos + d.len()] != d {
                        return Err(fail(&["C08"], "data-bytes", format!("Data chunk at position {} ({} bytes) does not match the stream", pos, d.len())));
                    }
                    if off != (pos + d.len()) as u64 {
                        return Err(fail(&["C08"], "data-offset", format!("Data offset {} but the chunk ends at {}", off, pos + d.len())));
                    }
                    if d.windows(2).any(|w| w == [0xFE, 0xFD]) {
                        return Err(fail(&["C08"], "stuff-in-data", format!("Data chunk at position {} contains FE FD", pos)));
                    }
                    if prev_data_last == Some(0xFE) && d[0] == 0xFD {
                        return Err(fail(&["C08"], "stuff-straddles-data", format!("FE FD straddles two consecutive Data chunks at position {}", pos)));
                    }
                    if d[d.len() - 1] != 0xFE && pos + d.len() < stream.len() && stream[pos + d.len()] == 0xFE {
                        obs.fe_held_back += 1;
                    }
                    if d == [0xFE] && pos + 1 == stream.len() {
                        obs.trailing_fe_at_eof += 1;
                    }
                    if d[d.len() - 1] == 0xFE && pos + d.len() + 1 < stream.len() && stream[pos + d.len()] == 0xFE && stream[pos + d.len() + 1] == 0xFD {
                        obs.fe_fe_fd += 1;
                    }
                    prev_data_last = Some(d[d.len() - 1]);
                    pos += d.len();
                    obs.data += 1;
                    if held.len() < 64 || rng.chance(1, 4) {
                        held.push((pos - d.len(), slice));
                    }
                }
            }
            match arena_mode {
                ArenaMode::FlushBetween => {
                    if rng.chance(1, 3) {
                        arena.flush_cache();
                    }
                }
                ArenaMode::SwapBetween => {
                    if rng.chance(1, 3) {
                        std::mem::swap(&mut arena, &mut spare);
                    }
                }
                _ => {}
            }
        }
        obs.interrupts += reader.interrupts;
        obs.swallowed_errors += reader.failures.saturating_sub(obs.pump_errors);
        // Held Data slices must still hold their bytes after all the arena churn.
        drop(arena);
        drop(spare);
        for (start, a) in &held {
            let d = a.slice();
            expose::check_one(d, &owned, &mut obs.expose).map_err(|e| fail(&["C05"], "expose-held-chunk", e))?;
            if &stream[*start..*start + d.len()] != d {
                return Err(fail(&["C05"], "held-chunk-content", format!("a Data slice held since position {} no longer holds its bytes", start)));
            }
        }
        drop(chunker);
        drop(held);
    }
    let (c, b) = (ByteArena::num_live_chunks(), ByteArena::num_live_bytes());
    if c != base_chunks || b != base_bytes {
        return Err(fail(&["C10"], "leak-after-drop", format!("live arena chunks/bytes {}/{} after the chunker case, {}/{} before", c, b, base_chunks, base_bytes)));
    }
    Ok(())
}

// ---------------------------------------------------------------------------
// C06

#[derive(Clone, Copy, Debug, PartialEq, Eq)]
pub enum Judge {
    /// StreamReader::chunk_judge(max, limit)
    Standard { max: usize, limit: Option<u64> },
    /// harness judge: skip records whose start offset satisfies start % m == r
    SkipByStart { m: u64, r: u64 },
}

#[derive(Debug, PartialEq, Eq)]
struct Rec {
    bytes: Vec<u8>,
    range: Range<u64>,
}

fn expected_records(stream: &[u8], judge: Judge) -> (Vec<Rec>, bool, u64, u64, u64) {
    // returns (records, stopped_by_limit, oversize_skipped, invalid_skipped, judge_skipped)
    let mut out = Vec::new();
    let (mut oversize, mut invalid, mut jskipped) = (0u64, 0u64, 0u64);
    for seg in segments(stream) {
        if seg.is_empty() {
            continue;
        }
        let bytes = &stream[seg.clone()];
        match judge {
            Judge::Standard { max, limit } => {
                if let Some(l) = limit {
                    if seg.start as u64 >= l {
                        return (out, true, oversize, invalid, jskipped);
                    }
                }
                match hcobs_ref::decode(bytes, 252, 64008) {
                    None => invalid += 1,
                    Some(d) => {
                        if d.len() > max {
                            oversize += 1;
                        } else {
                            out.push(Rec { bytes: d, range: seg.start as u64..seg.end as u64 });
                        }
                    }
                }
            }
            Judge::SkipByStart { m, r } => {
                if (seg.start as u64) % m == r {
                    jskipped += 1;
                    continue;
                }
                match hcobs_ref::decode(bytes, 252, 64008) {
                    None => invalid += 1,
                    Some(d) => out.push(Rec { bytes: d, range: seg.start as u64..seg.end as u64 }),
                }
            }
        }
    }
    // A limit at or before a trailing delimiter run also stops, but then
    // nothing would have been returned anyway.
    (out, false, oversize, invalid, jskipped)
}

#[derive(Default)]
struct ReaderObs {
    records: u64,
    oversize: u64,
    invalid: u64,
    judge_skipped: u64,
    stopped: u64,
    calls: u64,
    interrupts: u64,
    expose: ExposeStats,
}

fn run_reader(stream: &[u8], script: Vec<Step>, block: Option<usize>, judge: Judge, clone_midway: bool, obs: &mut ReaderObs) -> Result<(), Fail> {
    let base_chunks = ByteArena::num_live_chunks();
    let base_bytes = ByteArena::num_live_bytes();
    let (expected, stopped, oversize, invalid, jskipped) = expected_records(stream, judge);
    let mut owned = Owned::new();
    owned.add(stream);
    {
        let mut reader = ScriptedReader::new(stream, script, Tail::ServeAll);
        reader.log_calls = false;
        let mut sr = StreamReader::new();
        let std_judge;
        let skip_judge;
        let judge_fn: &dyn Fn(Range<u64>, ConsumingIovec<'_>) -> StreamAction = match judge {
            Judge::Standard { max, limit } => {
                std_judge = StreamReader::chunk_judge(max, limit);
                &std_judge
            }
            Judge::SkipByStart { m, r } => {
                skip_judge = move |range: Range<u64>, _iov: ConsumingIovec<'_>| {
                    if !range.is_empty() && range.start % m == r {
                        StreamAction::SkipRecord
                    } else {
                        StreamAction::KeepGoing
                    }
                };
                &skip_judge
            }
        };
        // Every judge call also runs the exposed-slice monitor on the record
        // in progress: its slices must be alive, and bytes seen for the same
        // record must not change between calls (C05).
        let judge_fault: std::cell::RefCell<Option<String>> = std::cell::RefCell::new(None);
        let judge_seen: std::cell::RefCell<(u64, Vec<u8>)> = std::cell::RefCell::new((u64::MAX, Vec::new()));
        let judge_expose: std::cell::RefCell<ExposeStats> = std::cell::RefCell::new(ExposeStats::default());
        let owned_ref = &owned;
        let judge_calls = std::cell::Cell::new(0u64);
        let monitored_judge = |range: Range<u64>, iov: ConsumingIovec<'_>| -> StreamAction {
            {
                let n = judge_calls.get();
                judge_calls.set(n + 1);
                // Sampled (the monitor must not dominate the run): the first 16
                // calls of the run and every 2nd call after that.  A slice that
                // dangles keeps dangling for the rest of its record, so a later
                // sampled call still sees it.
                if n >= 16 && n % 2 != 0 {
                    return judge_fn(range, iov);
                }
                let prefix = iov.stable_prefix();
                let total = iov.total_size();
                // Bounded work per call: the oldest 8 slices (first to dangle
                // when the arena moves on) and the newest 4; everything only
                // for small records in progress.
                let full = total <= 4096 && prefix.len() <= 32;
                let mut res = Ok(());
                if full || prefix.len() <= 12 {
                    res = expose::check_view(prefix, owned_ref, &mut judge_expose.borrow_mut());
                } else {
                    res = res.and_then(|_| expose::check_view(&prefix[..8], owned_ref, &mut judge_expose.borrow_mut()));
                    res = res.and_then(|_| expose::check_view(&prefix[prefix.len() - 4..], owned_ref, &mut judge_expose.borrow_mut()));
                }
                if let Err(e) = res {
                    judge_fault.borrow_mut().get_or_insert(format!("while judging the record at {:?}: {}", range, e));
                } else {
                    if !full {
                        return judge_fn(range, iov);
                    }
                    let limit = usize::MAX;
                    let mut cur = Vec::new();
                    for s in prefix {
                        if cur.len() >= limit {
                            break;
                        }
                        let k = s.len().min(limit - cur.len());
                        cur.extend_from_slice(&s[..k]);
                    }
                    let mut seen = judge_seen.borrow_mut();
                    if seen.0 == range.start && !range.is_empty() {
                        let n = seen.1.len().min(cur.len());
                        if seen.1[..n] != cur[..n] {
                            judge_fault.borrow_mut().get_or_insert(format!("decoded bytes of the record at {:?} changed between two judge calls", range));
                        }
                    }
                    if full || seen.0 != range.start {
                        *seen = (range.start, cur);
                    }
                }
            }
            judge_fn(range, iov)
        };
        let judge_fn = &monitored_judge;
        let mut got = 0usize;
        loop {
            obs.calls += 1;
            if clone_midway && got == 1 {
                // A clone taken between records must not disturb the original.
                let c = sr.clone();
                drop(c);
            }
            let r = sr
                .next_record_bytes(&mut reader, judge_fn, block)
                .map_err(|e| fail(&["C06"], "reader-err", format!("next_record_bytes failed on a benign reader: {}", e)))?;
            if let Some(fault) = judge_fault.borrow_mut().take() {
                return Err(fail(&["C05"], "expose-in-judge", fault));
            }
            match r {
                None => break,
                Some((iov, range)) => {
                    expose::check_view(iov.stable_prefix(), &owned, &mut obs.expose).map_err(|e| fail(&["C05"], "expose-record", e))?;
                    let bytes = iov.flatten().map_err(|_| fail(&["C06", "C04"], "record-pending", "returned record has a pending backpatch".into()))?;
                    if got >= expected.len() {
                        return Err(fail(&["C06"], "extra-record", format!("record #{} at {:?} ({} bytes) returned but only {} records are expected", got, range, bytes.len(), expected.len())));
                    }
                    let want = &expected[got];
                    if range != want.range {
                        return Err(fail(&["C06"], "record-range", format!("record #{} has range {:?}, expected {:?}", got, range, want.range)));
                    }
                    if bytes != want.bytes {
                        return Err(fail(&["C06"], "record-bytes", format!("record #{} at {:?} decodes to {} bytes that differ from the expected {} bytes", got, range, bytes.len(), want.bytes.len())));
                    }
                    got += 1;
                }
            }
        }
        if got != expected.len() {
            return Err(fail(&["C06"], "missing-record", format!("end of stream after {} records; {} expected (next expected range {:?})", got, expected.len(), expected[got].range)));
        }
        // None is sticky: after the end (natural or by the limit offset, past
        // which every later record starts) nothing more is returned.
        for _ in 0..2 {
            let r = sr
                .next_record_bytes(&mut reader, judge_fn, block)
                .map_err(|e| fail(&["C06"], "reader-err", format!("next_record_bytes failed after end of stream: {}", e)))?;
            if let Some((_, range)) = r {
                return Err(fail(&["C06"], "record-after-end", format!("a record at {:?} was returned after end of stream had been reported", range)));
            }
        }
        // With no limit offset in reach the end is the natural one, and the
        // reader must have seen every delimiter.
        let natural_end = match judge {
            Judge::Standard { limit: Some(l), .. } => l > stream.len() as u64,
            _ => true,
        };
        if natural_end {
            if stopped {
                return Err(fail(&["C06"], "oracle", "internal: stopped although the limit is out of reach".into()));
            }
            let want = delimiters(stream).last().copied().unwrap_or(0) as u64;
            if sr.last_sentinel_offset() != want {
                return Err(fail(&["C06"], "last-sentinel", format!("last_sentinel_offset() = {}, the last FE FD is at {}", sr.last_sentinel_offset(), want)));
            }
        }
        obs.interrupts += reader.interrupts;
        obs.expose.slices_checked += judge_expose.borrow().slices_checked;
    }
    obs.records += expected.len() as u64;
    obs.oversize += oversize;
    obs.invalid += invalid;
    obs.judge_skipped += jskipped;
    if stopped {
        obs.stopped += 1;
    }
    let (c, b) = (ByteArena::num_live_chunks(), ByteArena::num_live_bytes());
    if c != base_chunks || b != base_bytes {
        return Err(fail(&["C10"], "leak-after-drop", format!("live arena chunks/bytes {}/{} after the reader case, {}/{} before", c, b, base_chunks, base_bytes)));
    }
    Ok(())
}

fn gen_judge(rng: &mut Rng, stream: &[u8]) -> Judge {
    if rng.chance(1, 6) {
        return Judge::SkipByStart { m: rng.range(2, 4) as u64, r: rng.range(0, 1) as u64 };
    }
    let max = match rng.below(6) {
        0 => 0,
        1 => rng.range(1, 12),
        2 => rng.range(1, 300),
        _ => usize::MAX,
    };
    let dels = delimiters(stream);
    let limit = match rng.below(8) {
        0 => Some(0u64),
        1 => dels.get(rng.usize_below(dels.len().max(1))).map(|d| *d as u64),
        2 => dels.get(rng.usize_below(dels.len().max(1))).map(|d| *d as u64 + 2),
        3 => Some(rng.usize_below(stream.len() + 1) as u64),
        4 => Some(stream.len() as u64 + rng.range(0, 3) as u64),
        _ => None,
    };
    Judge::Standard { max, limit }
}

fn stream_case_json(kind: &str, idx: u64, stream: &[u8], block: Option<usize>, extra: Json) -> Json {
    Json::obj()
        .with("kind", Json::s(kind))
        .with("index", Json::U(idx))
        .with("stream_len", Json::U(stream.len() as u64))
        .with("stream", Json::hex(stream))
        .with("io_block_size", match block {
            Some(b) => Json::U(b as u64),
            None => Json::s("None(default)"),
        })
        .with("config", extra)
}

pub fn run(ctx: &mut Ctx) {
    if let Err(e) = hcobs_ref::self_test() {
        ctx.inconclusive(format!("reference codec self-test failed: {}", e));
        return;
    }
    let thorough = ctx.args.thorough();
    let miri = ctx.args.miri();
    let mode = ctx.args.get("mode").unwrap_or("all").to_string();
    let has = |m: &str| mode == "all" || mode.split(',').any(|x| x == m);
    let chunk_cases = ctx.args.get_u64("chunk-cases", if thorough { 2_000_000 } else { 100_000 });
    let reader_cases = ctx.args.get_u64("reader-cases", if thorough { 2_000_000 } else { 100_000 });
    let log_cases = ctx.args.get_u64("log-cases", if thorough { 400 } else { 40 });
    // Exploration only (off in every registered check): readers that return
    // hard, non-EINTR errors.  C08 quantifies over short-read / EINTR
    // schedules; under hard errors the unchanged chunker itself flushes a
    // carried FE early (see DESIGN 11.9), so nothing is demanded of them.
    let hard_errors = ctx.args.get_u64("hard-errors", 0) == 1;
    let mut index = 0u64;

    if has("chunker") {
        for r in 0..chunk_cases {
            let idx = index;
            index += 1;
            if !ctx.mine(idx) {
                continue;
            }
            let mut rng = Rng::for_case(ctx.args.seed, "stream-chunker", r);
            let big_ok = !miri && rng.chance(1, 20);
            let stream = gen_stream(&mut rng, big_ok);
            let block = if stream.len() > 20_000 {
                // long streams: large blocks only (tiny blocks would take millions of pumps)
                *rng.pick(&[4096usize, 65_536, 70_000, 100_000, 131_072, hcobs::DEFAULT_BLOCK_SIZE, hcobs::DEFAULT_BLOCK_SIZE, 1 << 20])
            } else {
                BLOCKS[rng.usize_below(BLOCKS.len())].unwrap_or(hcobs::DEFAULT_BLOCK_SIZE)
            };
            let script = gen_reader_script(&mut rng, stream.len(), hard_errors);
            let arena_mode = *rng.pick(&[ArenaMode::Fresh, ArenaMode::NearlyFull, ArenaMode::FlushBetween, ArenaMode::SwapBetween]);
            let seed = rng.next_u64();
            let cfg = Json::obj().with("arena", Json::Str(format!("{:?}", arena_mode))).with("reader_script_len", Json::U(script.len() as u64));
            ctx.begin_case(idx, || stream_case_json("chunker", idx, &stream, Some(block), cfg.clone()));
            let mut obs = ChunkObs::default();
            let res = catch(|| run_chunker(&stream, script, block, arena_mode, seed, &mut obs));
            ctx.ops += obs.pumps;
            match res {
                Err(p) => ctx.violate(&["C08", "C06"], &format!("panic:{}", panic_sig(&p)), format!("pump panicked: {}", p), stream_case_json("chunker", idx, &stream, Some(block), cfg)),
                Ok(Err(f)) => ctx.violate(&f.props, &f.sig, f.what, stream_case_json("chunker", idx, &stream, Some(block), cfg)),
                Ok(Ok(())) => {
                    ctx.feature_n("stream.chunker.data_chunks", obs.data);
                    ctx.feature_n("stream.chunker.sentinels", obs.sentinels);
                    ctx.feature_n("stream.chunker.fe_first_byte_of_next_chunk", obs.fe_held_back);
                    ctx.feature_n("stream.chunker.trailing_FE_at_end_of_stream", obs.trailing_fe_at_eof);
                    ctx.feature_n("stream.chunker.FE_FE_FD", obs.fe_fe_fd);
                    ctx.feature_n("stream.chunker.reader_interrupts", obs.interrupts);
                    ctx.feature_n("stream.chunker.pump_calls_failing_on_a_hard_reader_error_then_resumed", obs.pump_errors);
                    ctx.feature_n("stream.chunker.hard_reader_errors_after_bytes_in_the_same_refill", obs.swallowed_errors);
                    if obs.interrupts > 65_536 {
                        ctx.feature("stream.chunker.more_than_65536_interrupts_in_one_stream");
                    }
                    if block == 1 << 20 && stream.len() > 2 << 20 {
                        ctx.feature("stream.chunker.1MiB_blocks_on_a_stream_longer_than_2MiB");
                    }
                    ctx.feature_n("stream.chunker.block_size_changed_between_pumps", obs.block_changes);
                    ctx.feature_n("stream.chunker.exposed_slices_checked", obs.expose.slices_checked);
                    if block < 2 {
                        ctx.feature("stream.chunker.block_size_below_2");
                    }
                    ctx.feature(&format!("stream.chunker.arena.{:?}", arena_mode));
                    ctx.feature("stream.drop_accounting_checked");
                    ctx.signature(mix(&[1, block as u64, arena_mode as u64, obs.data.min(12), obs.sentinels.min(12), (obs.fe_held_back > 0) as u64, (obs.trailing_fe_at_eof > 0) as u64, (obs.fe_fe_fd > 0) as u64, (obs.interrupts > 0) as u64, (stream.len() as u64).leading_zeros() as u64]));
                    ctx.sample(2, || stream_case_json("chunker", idx, &stream, Some(block), cfg.clone()));
                }
            }
            ctx.end_case(idx);
            if ctx.too_many_violations() {
                return;
            }
        }
    }
    index = index.max(1 << 32);

    let do_reader_case = |ctx: &mut Ctx, kind: &str, idx: u64, stream: &[u8], rng: &mut Rng| {
        let block = if stream.len() > 20_000 {
            *rng.pick(&[Some(4096usize), Some(65_536), Some(70_000), Some(100_000), Some(131_072), None, None, Some(1 << 20)])
        } else {
            BLOCKS[rng.usize_below(BLOCKS.len())]
        };
        let script = gen_reader_script(rng, stream.len(), false);
        let judge = gen_judge(rng, stream);
        let clone_midway = rng.chance(1, 5);
        let cfg = Json::obj().with("judge", Json::Str(format!("{:?}", judge))).with("reader_script_len", Json::U(script.len() as u64)).with("clone_between_records", Json::Bool(clone_midway));
        let mut obs = ReaderObs::default();
        let res = catch(|| run_reader(stream, script, block, judge, clone_midway, &mut obs));
        ctx.ops += obs.calls;
        match res {
            Err(p) => {
                ctx.violate(&["C06"], &format!("panic:{}", panic_sig(&p)), format!("next_record_bytes panicked: {}", p), stream_case_json(kind, idx, stream, block, cfg));
                false
            }
            Ok(Err(f)) => {
                ctx.violate(&f.props, &f.sig, f.what, stream_case_json(kind, idx, stream, block, cfg));
                false
            }
            Ok(Ok(())) => {
                ctx.feature_n("stream.reader.records_returned", obs.records);
                ctx.feature_n("stream.reader.oversize_skipped", obs.oversize);
                ctx.feature_n("stream.reader.invalid_segments_skipped", obs.invalid);
                ctx.feature_n("stream.reader.judge_skipped", obs.judge_skipped);
                ctx.feature_n("stream.reader.stopped_by_limit", obs.stopped);
                ctx.feature_n("stream.reader.reader_interrupts", obs.interrupts);
                if obs.interrupts > 65_536 {
                    ctx.feature("stream.reader.more_than_65536_interrupts_in_one_stream");
                }
                if block == Some(1 << 20) && stream.len() > 2 << 20 {
                    ctx.feature("stream.reader.1MiB_blocks_on_a_stream_longer_than_2MiB");
                }
                ctx.feature_n("stream.reader.exposed_slices_checked", obs.expose.slices_checked);
                if matches!(block, Some(0) | Some(1)) {
                    ctx.feature("stream.reader.block_size_below_2");
                }
                if block.is_none() {
                    ctx.feature("stream.reader.default_block_size");
                }
                ctx.feature("stream.drop_accounting_checked");
                ctx.signature(mix(&[2, block.map(|b| b as u64 + 1).unwrap_or(0), obs.records.min(10), obs.oversize.min(4), obs.invalid.min(6), obs.judge_skipped.min(3), obs.stopped, (obs.interrupts > 0) as u64, (stream.len() as u64).leading_zeros() as u64]));
                if kind == "reader" {
                    ctx.sample(3, || stream_case_json(kind, idx, stream, block, cfg.clone()));
                }
                true
            }
        }
    };

    if has("reader") {
        for r in 0..reader_cases {
            let idx = index;
            index += 1;
            if !ctx.mine(idx) {
                continue;
            }
            let mut rng = Rng::for_case(ctx.args.seed, "stream-reader", r);
            let big_ok = !miri && rng.chance(1, 20);
            let stream = gen_stream(&mut rng, big_ok);
            ctx.begin_case(idx, || stream_case_json("reader", idx, &stream, None, Json::Null));
            do_reader_case(ctx, "reader", idx, &stream, &mut rng);
            ctx.end_case(idx);
            if ctx.too_many_violations() {
                return;
            }
        }
    }
    index = index.max(2 << 32);

    if has("logs") {
        // crashed-writer logs truncated at every byte
        for r in 0..log_cases {
            let idx = index;
            index += 1;
            if !ctx.mine(idx) {
                continue;
            }
            let mut rng = Rng::for_case(ctx.args.seed, "stream-log", r);
            let nrec = if miri { 2 } else { rng.range(2, 6) };
            let log = gen_log(&mut rng, nrec);
            ctx.begin_case(idx, || stream_case_json("crashed-log", idx, &log, None, Json::Null));
            let mut ok = true;
            for cut in 0..=log.len() {
                ctx.cases += 1;
                if !do_reader_case(ctx, "crashed-log", idx, &log[..cut], &mut rng) {
                    ok = false;
                    break;
                }
            }
            if ok {
                ctx.feature_n("stream.reader.log_truncation_points", log.len() as u64 + 1);
            }
            ctx.end_case(idx);
            if ctx.too_many_violations() {
                return;
            }
        }
    }
}
