//! Engine `codec`: hcobs::Encoder / Decoder (production limits) and the
//! tiny-limit entry points of hook H2.  Decides C01, C02, C07, C09 and feeds
//! C05 (exposed-slice monitor) and C10 (drop accounting).

use std::io::Read;
use std::num::NonZeroUsize;

use hcobs::DecodingError;
use owning_iovec::AnchoredSlice;
use owning_iovec::ByteArena;
use owning_iovec::ConsumingIovec;
use owning_iovec::OwningIovec;

use crate::ctx::catch;
use crate::ctx::panic_sig;
use crate::ctx::Ctx;
use crate::expose;
use crate::expose::ExposeStats;
use crate::expose::Owned;
use crate::gen;
use crate::hcobs_ref;
use crate::json::Json;
use crate::prng::hash_bytes;
use crate::prng::mix;
use crate::prng::Rng;
use crate::reader::benign_script;
use crate::reader::ScriptedReader;
use crate::reader::Tail;

#[derive(Clone, Copy, Debug, PartialEq, Eq)]
pub enum Params {
    Prod,
    Tiny(usize, usize),
}

impl Params {
    pub fn limits(self) -> (usize, usize) {
        match self {
            Params::Prod => (hcobs_ref::PROD_FIRST, hcobs_ref::PROD_LATER),
            Params::Tiny(a, b) => (a, b),
        }
    }
    fn json(self) -> Json {
        match self {
            Params::Prod => Json::s("prod(252,64008)"),
            Params::Tiny(a, b) => Json::Str(format!("H2({},{})", a, b)),
        }
    }
}

pub const TINY_LIMITS: [(usize, usize); 6] = [(1, 1), (1, 2), (2, 3), (3, 5), (4, 7), (3, 300)];

pub enum AnyEnc<'a> {
    Prod(hcobs::Encoder<'a>),
    Tiny(hcobs::verif::Encoder<'a>),
}

impl<'a> AnyEnc<'a> {
    pub fn new(p: Params) -> Self {
        match p {
            Params::Prod => AnyEnc::Prod(hcobs::Encoder::new()),
            Params::Tiny(a, b) => AnyEnc::Tiny(hcobs::verif::Encoder::new(a, b)),
        }
    }
    pub fn encode(&mut self, d: &'a [u8]) {
        match self {
            AnyEnc::Prod(e) => e.encode(d),
            AnyEnc::Tiny(e) => e.encode(d),
        }
    }
    pub fn encode_copy(&mut self, d: &[u8]) {
        match self {
            AnyEnc::Prod(e) => e.encode_copy(d),
            AnyEnc::Tiny(e) => e.encode_copy(d),
        }
    }
    pub fn sink_copy(&mut self, d: &[u8]) {
        match self {
            AnyEnc::Prod(e) => owning_iovec::ZeroCopySink::append_copy(e, d),
            AnyEnc::Tiny(e) => e.encode_copy(d),
        }
    }
    pub fn sink_borrow(&mut self, d: &'a [u8]) {
        match self {
            AnyEnc::Prod(e) => {
                let mut by_ref = &mut *e;
                owning_iovec::ZeroCopySink::append_borrow(&mut by_ref, d)
            }
            AnyEnc::Tiny(e) => e.encode(d),
        }
    }
    pub fn encode_anchored(&mut self, d: AnchoredSlice) {
        match self {
            AnyEnc::Prod(e) => e.encode_anchored(d),
            AnyEnc::Tiny(e) => e.encode_anchored(d),
        }
    }
    pub fn consumer(&mut self) -> ConsumingIovec<'_> {
        match self {
            AnyEnc::Prod(e) => e.consumer(),
            AnyEnc::Tiny(e) => e.consumer(),
        }
    }
    pub fn finish(self) -> OwningIovec<'a> {
        match self {
            AnyEnc::Prod(e) => e.finish(),
            AnyEnc::Tiny(e) => e.finish(),
        }
    }
    pub fn read_n(&mut self, r: impl Read, count: usize, attempts: NonZeroUsize) -> std::io::Result<AnchoredSlice> {
        match self {
            AnyEnc::Prod(e) => e.read_n(r, count, attempts),
            AnyEnc::Tiny(e) => e.consumer().arena().read_n(r, count, attempts),
        }
    }
    pub fn encode_read(&mut self, r: impl Read, count: usize, attempts: NonZeroUsize) -> std::io::Result<usize> {
        match self {
            AnyEnc::Prod(e) => e.encode_read(r, count, attempts),
            AnyEnc::Tiny(e) => {
                let a = e.consumer().arena().read_n(r, count, attempts)?;
                let n = a.slice().len();
                e.encode_anchored(a);
                Ok(n)
            }
        }
    }
}

pub enum AnyDec<'a> {
    Prod(hcobs::Decoder<'a>),
    Tiny(hcobs::verif::Decoder<'a>),
}

impl<'a> AnyDec<'a> {
    pub fn new(p: Params) -> Self {
        match p {
            Params::Prod => AnyDec::Prod(hcobs::Decoder::new()),
            Params::Tiny(a, b) => AnyDec::Tiny(hcobs::verif::Decoder::new(a, b)),
        }
    }
    pub fn decode(&mut self, d: &'a [u8]) -> Result<(), DecodingError> {
        match self {
            AnyDec::Prod(e) => e.decode(d),
            AnyDec::Tiny(e) => e.decode(d),
        }
    }
    pub fn decode_copy(&mut self, d: &[u8]) -> Result<(), DecodingError> {
        match self {
            AnyDec::Prod(e) => e.decode_copy(d),
            AnyDec::Tiny(e) => e.decode_copy(d),
        }
    }
    pub fn decode_anchored(&mut self, d: AnchoredSlice) -> Result<(), DecodingError> {
        match self {
            AnyDec::Prod(e) => e.decode_anchored(d),
            AnyDec::Tiny(e) => e.decode_anchored(d),
        }
    }
    pub fn consumer(&mut self) -> ConsumingIovec<'_> {
        match self {
            AnyDec::Prod(e) => e.consumer(),
            AnyDec::Tiny(e) => e.consumer(),
        }
    }
    pub fn finish(self) -> Result<OwningIovec<'a>, DecodingError> {
        match self {
            AnyDec::Prod(e) => e.finish(),
            AnyDec::Tiny(e) => e.finish(),
        }
    }
    pub fn read_n(&mut self, r: impl Read, count: usize, attempts: NonZeroUsize) -> std::io::Result<AnchoredSlice> {
        match self {
            AnyDec::Prod(e) => e.read_n(r, count, attempts),
            AnyDec::Tiny(e) => e.consumer().arena().read_n(r, count, attempts),
        }
    }
    /// Ok(Ok(n)) read + decoded; Ok(Err(())) decoding rejected; Err(e) read failed.
    pub fn decode_read(&mut self, r: impl Read, count: usize, attempts: NonZeroUsize) -> std::io::Result<usize> {
        match self {
            AnyDec::Prod(e) => e.decode_read(r, count, attempts),
            AnyDec::Tiny(e) => {
                let a = e.consumer().arena().read_n(r, count, attempts)?;
                let n = a.slice().len();
                match e.decode_anchored(a) {
                    Ok(()) => Ok(n),
                    Err(err) => Err(std::io::Error::other(err)),
                }
            }
        }
    }
}

#[derive(Clone, Copy, Debug, PartialEq, Eq)]
pub enum Method {
    Borrow,
    Copy,
    /// read_n of exactly the piece, then *_anchored
    Anchored,
    /// read_n of junk ++ piece ++ junk, trimmed with skip_prefix / drop_suffix
    AnchoredTrim,
    /// read_n of the piece, split_at somewhere, both halves fed in order
    AnchoredSplit,
    /// like AnchoredSplit, but the right half is held back across this step's
    /// observation / drain / arena poke and only fed before the next piece
    AnchoredSplitHold,
    /// encode_read / decode_read through a scripted short-read reader
    Read,
    /// through the ZeroCopySink impl of the production Encoder (append_copy);
    /// decoders and tiny-limit encoders use the *_copy method
    SinkCopy,
    /// ZeroCopySink::append_borrow, reached through the blanket `&mut T` impl
    SinkBorrow,
}

pub const METHODS: [Method; 9] = [
    Method::SinkCopy,
    Method::SinkBorrow,
    Method::Borrow,
    Method::Copy,
    Method::Anchored,
    Method::AnchoredTrim,
    Method::AnchoredSplit,
    Method::AnchoredSplitHold,
    Method::Read,
];

#[derive(Clone, Copy, Debug, PartialEq, Eq)]
pub enum Drain {
    None,
    Peek,
    ConsumeAll,
    Consume(usize),
    Advance(usize),
    AdvanceAllButOne,
    ReadBuf(usize),
}

#[derive(Clone, Copy, Debug, PartialEq, Eq)]
pub enum Poke {
    None,
    Flush,
    Ensure(usize),
    TakeSwap,
}

#[derive(Clone, Copy, Debug)]
pub struct PieceStep {
    pub end: usize,
    pub method: Method,
    pub drain: Drain,
    pub poke: Poke,
    pub aux: u64,
}

fn step_json(s: &PieceStep) -> Json {
    Json::Str(format!("..{} {:?} {:?} {:?}", s.end, s.method, s.drain, s.poke))
}

fn plan_json(p: &[PieceStep]) -> Json {
    Json::Arr(p.iter().take(24).map(step_json).collect())
}

pub fn random_plan(rng: &mut Rng, len: usize, marks: &[usize], drain_weight: u32, miri: bool) -> Vec<PieceStep> {
    let cuts = gen::cuts(rng, len, marks);
    let mut ends = cuts;
    ends.push(len);
    // Zero-length pieces (an empty slice handed to encode / decode in the
    // middle of a message): repeat some piece ends, and sometimes start with
    // an empty piece.
    if rng.chance(1, 3) {
        let mut with_empty = Vec::with_capacity(ends.len() + 4);
        if rng.chance(1, 4) {
            with_empty.push(0);
        }
        for e in ends {
            with_empty.push(e);
            if rng.chance(1, 5) {
                with_empty.push(e);
                if rng.chance(1, 4) {
                    with_empty.push(e);
                }
            }
        }
        ends = with_empty;
    }
    let one_method = if rng.chance(1, 4) { Some(*rng.pick(&METHODS)) } else { None };
    let mut plan = Vec::with_capacity(ends.len());
    let many = ends.len() > 64;
    for end in ends {
        let method = one_method.unwrap_or_else(|| {
            if many && rng.chance(3, 4) {
                *rng.pick(&[Method::Borrow, Method::Copy])
            } else {
                *rng.pick(&METHODS)
            }
        });
        let drain = if rng.below(100) < drain_weight as u64 {
            match rng.below(8) {
                0 => Drain::Peek,
                1 => Drain::ConsumeAll,
                2 => Drain::Consume(rng.range(0, 3)),
                3 => Drain::Advance(rng.range(0, 7)),
                4 => Drain::Advance(rng.range(0, if miri { 300 } else { 70000 })),
                5 => Drain::AdvanceAllButOne,
                6 => Drain::ReadBuf(rng.range(0, if miri { 100 } else { 5000 })),
                _ => Drain::Advance(usize::MAX),
            }
        } else {
            Drain::None
        };
        let poke = match rng.below(40) {
            0 => Poke::Flush,
            1 => Poke::Ensure(rng.range(1, if miri { 5000 } else { 70000 })),
            2 => Poke::TakeSwap,
            3 => Poke::Flush,
            _ => Poke::None,
        };
        plan.push(PieceStep { end, method, drain, poke, aux: rng.next_u64() });
    }
    plan
}

/// What the monitor saw while feeding one side.
#[derive(Default)]
pub struct SideObs {
    pub drained: Vec<u8>,
    /// (drained_len, peek_len, hash(peek)) snapshots for the prefix oracle.
    pub peeks: Vec<(usize, usize, u64)>,
    pub max_lag: usize,
    pub max_live_bytes: usize,
    pub drains: u64,
    pub pokes: u64,
    pub expose: ExposeStats,
    pub reads_short: u64,
    pub failed_reads_retried: u64,
}

/// Failures of a call's own report (return value of consume / advance_slices
/// / read).  They are recorded and the run continues, so that the end-to-end
/// oracles (round trip, canonical output, prefix) are still evaluated on the
/// same execution.
pub type Soft = Vec<Fail>;

#[derive(Debug)]
pub struct Fail {
    pub props: Vec<&'static str>,
    pub sig: String,
    pub what: String,
}

/// An exposure failure (C05).  In the plain debug flavour the execution goes
/// on, so that the end-to-end oracles show the consequence too (a released
/// chunk reads back as the 0xFC poison there); under ASan / Miri / release
/// the case stops instead of deliberately touching released memory.
fn expose_failed(soft: &mut Soft, sig: &str, e: String) -> Result<(), Fail> {
    let f = fail(&["C05"], sig, e);
    if crate::ctx::flavour() == "dbg" {
        if soft.iter().all(|x| x.sig != f.sig) {
            soft.push(f);
        }
        Ok(())
    } else {
        Err(f)
    }
}

fn fail(props: &[&'static str], sig: &str, what: String) -> Fail {
    Fail { props: props.to_vec(), sig: sig.to_string(), what }
}

const MAX_ATTEMPTS: NonZeroUsize = NonZeroUsize::MAX;

/// Observes the consumer after a feed call and applies the drain action.
/// `lag_limit`: None = no bound checked.
fn observe_and_drain(
    mut cons: ConsumingIovec<'_>,
    drain: Drain,
    poke: Poke,
    obs: &mut SideObs,
    owned: &Owned,
    lag_limit: Option<usize>,
    is_decoder: bool,
    full_peek: bool,
    soft: &mut Soft,
) -> Result<(), Fail> {
    // (1) exposed slices live + disjoint + non-empty; (2) lag; (3) snapshot.
    let total = cons.total_size();
    let stable_len: usize;
    {
        let prefix = cons.stable_prefix();
        if let Err(e) = expose::check_view(prefix, owned, &mut obs.expose) {
            expose_failed(soft, "expose", e)?;
        }
        stable_len = prefix.iter().map(|s| s.len()).sum();
        if full_peek {
            let mut peek = Vec::with_capacity(stable_len);
            for s in prefix {
                peek.extend_from_slice(s);
            }
            obs.peeks.push((obs.drained.len(), peek.len(), hash_bytes(&peek)));
        }
    }
    if stable_len > total {
        soft.push(fail(&["C03", "C09"], "stable>total", format!("stable bytes {} > total_size {}", stable_len, total)));
    }
    let lag = total.saturating_sub(stable_len);
    obs.max_lag = obs.max_lag.max(lag);
    let live = ByteArena::num_live_bytes();
    obs.max_live_bytes = obs.max_live_bytes.max(live);
    if is_decoder {
        if lag != 0 {
            return Err(fail(&["C09"], "decoder-lag", format!("decoder has {} produced bytes that are not consumable", lag)));
        }
        if cons.has_pending_backrefs() {
            return Err(fail(&["C09"], "decoder-pending", "decoder output reports pending backrefs".into()));
        }
    } else if let Some(limit) = lag_limit {
        if lag > limit {
            return Err(fail(&["C09"], "encoder-lag", format!("encoder lag {} > bound {}", lag, limit)));
        }
    }

    match poke {
        Poke::None => {}
        Poke::Flush => {
            cons.arena().flush_cache();
            obs.pokes += 1;
        }
        Poke::Ensure(n) => {
            cons.arena().ensure_capacity(n);
            obs.pokes += 1;
        }
        Poke::TakeSwap => {
            let mut a = cons.take_arena();
            a.ensure_capacity(100);
            let old = cons.swap_arena(a);
            drop(old);
            obs.pokes += 1;
        }
    }

    match drain {
        Drain::None | Drain::Peek => {}
        Drain::ConsumeAll | Drain::Consume(_) => {
            let k = match drain {
                Drain::Consume(k) => k,
                _ => usize::MAX,
            };
            let n = cons.stable_prefix().len();
            let take = k.min(n);
            for s in &cons.stable_prefix()[..take] {
                obs.drained.extend_from_slice(s);
            }
            let got = cons.consume(k);
            obs.drains += 1;
            if got != take {
                soft.push(fail(&["C03", "C09", "C04"], "consume-ret", format!("consume({}) returned {} with {} stable slices", k, got, n)));
            }
        }
        Drain::Advance(_) | Drain::AdvanceAllButOne => {
            let n = match drain {
                Drain::Advance(n) => n,
                _ => stable_len.saturating_sub(1),
            };
            let take = n.min(stable_len);
            let mut left = take;
            for s in cons.stable_prefix() {
                if left == 0 {
                    break;
                }
                let k = left.min(s.len());
                obs.drained.extend_from_slice(&s[..k]);
                left -= k;
            }
            let got = cons.advance_slices(n);
            obs.drains += 1;
            if got != take {
                soft.push(fail(&["C03", "C09", "C04"], "advance-ret", format!("advance_slices({}) returned {} with {} stable bytes", n, got, stable_len)));
            }
        }
        Drain::ReadBuf(n) => {
            let mut buf = vec![0u8; n];
            let got = match cons.read(&mut buf) {
                Ok(g) => g,
                Err(e) => return Err(fail(&["C03", "C09"], "read-err", format!("ConsumingIovec::read failed: {}", e))),
            };
            obs.drains += 1;
            if got != n.min(stable_len) {
                soft.push(fail(&["C03", "C09"], "read-ret", format!("read(buf {}) returned {} with {} stable bytes", n, got, stable_len)));
            }
            obs.drained.extend_from_slice(&buf[..got.min(buf.len())]);
        }
    }
    Ok(())
}

/// Checks the recorded peeks against the final output (C09 prefix clause).
fn check_peeks(obs: &SideObs, total: &[u8], side: &str) -> Result<(), Fail> {
    for (dlen, plen, h) in &obs.peeks {
        if dlen + plen > total.len() {
            return Err(fail(&["C09"], "peek-beyond", format!("{}: drained {} + peek {} exceeds final output {}", side, dlen, plen, total.len())));
        }
        if hash_bytes(&total[*dlen..dlen + plen]) != *h {
            return Err(fail(&["C09", "C04"], "peek-not-prefix", format!("{}: bytes consumable after draining {} ({} bytes) are not a prefix of the final output", side, dlen, plen)));
        }
    }
    Ok(())
}

fn lag_limit_for(_params: Params) -> usize {
    // one arena chunk (the harness keeps single reads <= 1 MiB) + one HCOBS chunk + header
    (1 << 20) + 64008 + 2
}

pub struct EncodeOut {
    pub total: Vec<u8>,
    pub obs: SideObs,
}

/// Feeds `input` to `enc` according to `plan`, monitoring after every call.
#[allow(clippy::too_many_arguments)]
fn encode_segment<'a>(
    enc: &mut AnyEnc<'a>,
    input: &'a [u8],
    plan: &[PieceStep],
    obs: &mut SideObs,
    owned: &Owned,
    heavy_monitor: bool,
    soft: &mut Soft,
    held: &mut Option<AnchoredSlice>,
    lag_limit: Option<usize>,
) -> Result<(), Fail> {
    let mut start = 0usize;
    for (si, step) in plan.iter().enumerate() {
        if let Some(r) = held.take() {
            enc.encode_anchored(r);
        }
        let piece = &input[start..step.end];
        feed_encoder(enc, piece, step, obs, owned, held)?;
        start = step.end;
        let full_peek = heavy_monitor || si % 16 == 0 || step.drain != Drain::None;
        observe_and_drain(enc.consumer(), step.drain, step.poke, obs, owned, lag_limit, false, full_peek, soft)?;
    }
    if let Some(r) = held.take() {
        enc.encode_anchored(r);
    }
    Ok(())
}

/// Finishes the encoder; returns everything it produced (drained ++ rest)
/// and the finished iovec.
fn finish_encode<'a>(enc: AnyEnc<'a>, mut obs: SideObs, owned: &Owned, soft: &mut Soft) -> Result<(EncodeOut, OwningIovec<'a>), Fail> {
    let iov = enc.finish();
    {
        let prefix = iov.stable_prefix();
        if let Err(e) = expose::check_view(prefix, owned, &mut obs.expose) {
            expose_failed(soft, "expose", e)?;
        }
    }
    let tail = match iov.flatten() {
        Ok(t) => t,
        Err(_) => {
            return Err(fail(&["C01", "C04"], "finish-pending", "Encoder::finish() left a backpatch pending".into()));
        }
    };
    if iov.total_size() != tail.len() {
        soft.push(fail(&["C03"], "total-size", format!("finished encoder total_size {} != flatten len {}", iov.total_size(), tail.len())));
    }
    let mut total = std::mem::take(&mut obs.drained);
    total.extend_from_slice(&tail);
    check_peeks(&obs, &total, "encoder")?;
    Ok((EncodeOut { total, obs }, iov))
}

/// Feeds `input` to a fresh encoder according to `plan`, monitoring after every call.
pub fn run_encode(params: Params, input: &[u8], plan: &[PieceStep], owned: &Owned, heavy_monitor: bool, soft: &mut Soft) -> Result<EncodeOut, Fail> {
    let mut obs = SideObs::default();
    let mut enc = AnyEnc::new(params);
    let mut held = None;
    encode_segment(&mut enc, input, plan, &mut obs, owned, heavy_monitor, soft, &mut held, Some(lag_limit_for(params)))?;
    let (out, iov) = finish_encode(enc, obs, owned, soft)?;
    drop(iov);
    Ok(out)
}

/// A reader that fails before delivering anything: a hard error, or only
/// interruptions (the attempt limit runs out).
fn transient_failure<'d>(piece: &'d [u8], aux: u64) -> ScriptedReader<'d> {
    use crate::reader::Step;
    let script = match (aux >> 48) % 3 {
        0 => vec![Step::Fail(std::io::ErrorKind::WouldBlock)],
        1 => vec![Step::Interrupted, Step::Fail(std::io::ErrorKind::TimedOut)],
        _ => vec![Step::Interrupted, Step::Interrupted, Step::Interrupted, Step::Fail(std::io::ErrorKind::WouldBlock)],
    };
    ScriptedReader::new(piece, script, Tail::Eof)
}

fn scripted<'d>(piece: &'d [u8], aux: u64) -> ScriptedReader<'d> {
    let mut rng = Rng::new(aux);
    let n = rng.range(0, 6);
    let script = benign_script(&mut rng, n, piece.len().max(1));
    ScriptedReader::new(piece, script, Tail::ServeAll)
}

fn read_anchored_enc(enc: &mut AnyEnc<'_>, piece: &[u8], aux: u64, obs: &mut SideObs) -> Result<AnchoredSlice, Fail> {
    let mut r = scripted(piece, aux);
    let a = enc
        .read_n(&mut r, piece.len(), MAX_ATTEMPTS)
        .map_err(|e| fail(&["C17"], "read_n-err", format!("read_n failed on a benign reader: {}", e)))?;
    if a.slice() != piece {
        return Err(fail(&["C17"], "read_n-bytes", "read_n returned other bytes than the reader delivered".into()));
    }
    obs.reads_short += r.interrupts;
    Ok(a)
}

fn feed_encoder<'a>(enc: &mut AnyEnc<'a>, piece: &'a [u8], step: &PieceStep, obs: &mut SideObs, owned: &Owned, held: &mut Option<AnchoredSlice>) -> Result<(), Fail> {
    match step.method {
        Method::Borrow => enc.encode(piece),
        Method::Copy => enc.encode_copy(piece),
        Method::SinkCopy => enc.sink_copy(piece),
        Method::SinkBorrow => enc.sink_borrow(piece),
        Method::Anchored => {
            let a = read_anchored_enc(enc, piece, step.aux, obs)?;
            expose::check_one(a.slice(), owned, &mut obs.expose).map_err(|e| fail(&["C05"], "expose-anchored", e))?;
            enc.encode_anchored(a);
        }
        Method::AnchoredTrim => {
            let pre = (step.aux % 5) as usize;
            let post = ((step.aux >> 8) % 5) as usize;
            let mut buf = vec![0xFEu8; pre];
            buf.extend_from_slice(piece);
            buf.extend(std::iter::repeat(0xFD).take(post));
            let mut a = read_anchored_enc(enc, &buf, step.aux, obs)?;
            if a.skip_prefix(pre) != pre.min(buf.len()) || a.drop_suffix(post) != post.min(buf.len() - pre.min(buf.len())) {
                return Err(fail(&["C05"], "trim-ret", "skip_prefix/drop_suffix returned an unexpected count".into()));
            }
            if a.slice() != piece {
                return Err(fail(&["C05"], "trim-bytes", "trimmed AnchoredSlice does not hold the expected bytes".into()));
            }
            enc.encode_anchored(a);
        }
        Method::AnchoredSplit | Method::AnchoredSplitHold => {
            let a = read_anchored_enc(enc, piece, step.aux, obs)?;
            let mid = if piece.is_empty() { 0 } else { (step.aux >> 16) as usize % (piece.len() + 1) };
            let (l, r) = a.split_at(mid);
            if l.slice().len() + r.slice().len() != piece.len() {
                return Err(fail(&["C05"], "split-len", "split_at lost or duplicated bytes".into()));
            }
            enc.encode_anchored(l);
            if step.method == Method::AnchoredSplitHold {
                // The right half outlives whatever happens to the left
                // half's bytes (drained, arena flushed / swapped).
                *held = Some(r);
            } else {
                enc.encode_anchored(r);
            }
        }
        Method::Read => {
            if (step.aux >> 40) % 4 == 0 {
                // A transient failure first (nothing delivered): the caller
                // retries on the same encoder.
                let mut failing = transient_failure(piece, step.aux);
                let att = NonZeroUsize::new(1 + (step.aux >> 44) as usize % 3).unwrap();
                match enc.encode_read(&mut failing, piece.len().max(1), att) {
                    Ok(0) | Err(_) => obs.failed_reads_retried += 1,
                    Ok(n) => return Err(fail(&["C17"], "encode_read-count", format!("encode_read returned {} from a reader that delivered nothing", n))),
                }
            }
            let mut r = scripted(piece, step.aux);
            let extra = (step.aux >> 24) as usize % 3;
            let n = enc
                .encode_read(&mut r, piece.len() + extra, MAX_ATTEMPTS)
                .map_err(|e| fail(&["C17"], "encode_read-err", format!("encode_read failed on a benign reader: {}", e)))?;
            if n != piece.len() {
                return Err(fail(&["C17"], "encode_read-count", format!("encode_read returned {} for a {}-byte piece", n, piece.len())));
            }
            obs.reads_short += r.interrupts;
        }
    }
    Ok(())
}

pub struct DecodeOut {
    /// Some(bytes) if accepted.
    pub result: Option<Vec<u8>>,
    pub obs: SideObs,
}

fn read_anchored_dec(dec: &mut AnyDec<'_>, piece: &[u8], aux: u64, obs: &mut SideObs) -> Result<AnchoredSlice, Fail> {
    let mut r = scripted(piece, aux);
    let a = dec
        .read_n(&mut r, piece.len(), MAX_ATTEMPTS)
        .map_err(|e| fail(&["C17"], "read_n-err", format!("read_n failed on a benign reader: {}", e)))?;
    if a.slice() != piece {
        return Err(fail(&["C17"], "read_n-bytes", "read_n returned other bytes than the reader delivered".into()));
    }
    obs.reads_short += r.interrupts;
    Ok(a)
}

/// Feeds `enc` to `dec` according to `plan`; Ok(true) if the decoder rejected.
#[allow(clippy::too_many_arguments)]
fn decode_segment<'a>(
    dec: &mut AnyDec<'a>,
    enc: &'a [u8],
    plan: &[PieceStep],
    obs: &mut SideObs,
    owned: &Owned,
    heavy_monitor: bool,
    soft: &mut Soft,
    held: &mut Option<AnchoredSlice>,
) -> Result<bool, Fail> {
    let mut start = 0usize;
    for (si, step) in plan.iter().enumerate() {
        if let Some(r) = held.take() {
            if dec.decode_anchored(r).is_err() {
                return Ok(true);
            }
        }
        let piece = &enc[start..step.end];
        start = step.end;
        let r: Result<(), ()> = match step.method {
            Method::Borrow | Method::SinkBorrow => dec.decode(piece).map_err(|_| ()),
            Method::Copy | Method::SinkCopy => dec.decode_copy(piece).map_err(|_| ()),
            Method::Anchored => {
                let a = read_anchored_dec(dec, piece, step.aux, obs)?;
                expose::check_one(a.slice(), owned, &mut obs.expose).map_err(|e| fail(&["C05"], "expose-anchored", e))?;
                dec.decode_anchored(a).map_err(|_| ())
            }
            Method::AnchoredTrim => {
                let pre = (step.aux % 5) as usize;
                let post = ((step.aux >> 8) % 5) as usize;
                let mut buf = vec![0x00u8; pre];
                buf.extend_from_slice(piece);
                buf.extend(std::iter::repeat(0xFF).take(post));
                let mut a = read_anchored_dec(dec, &buf, step.aux, obs)?;
                let _ = a.skip_prefix(pre);
                let _ = a.drop_suffix(post);
                if a.slice() != piece {
                    return Err(fail(&["C05"], "trim-bytes", "trimmed AnchoredSlice does not hold the expected bytes".into()));
                }
                dec.decode_anchored(a).map_err(|_| ())
            }
            Method::AnchoredSplit | Method::AnchoredSplitHold => {
                let a = read_anchored_dec(dec, piece, step.aux, obs)?;
                let mid = if piece.is_empty() { 0 } else { (step.aux >> 16) as usize % (piece.len() + 1) };
                let (l, r) = a.split_at(mid);
                match dec.decode_anchored(l) {
                    Ok(()) => {
                        if step.method == Method::AnchoredSplitHold {
                            *held = Some(r);
                            Ok(())
                        } else {
                            dec.decode_anchored(r).map_err(|_| ())
                        }
                    }
                    Err(_) => Err(()),
                }
            }
            Method::Read => {
                if (step.aux >> 40) % 4 == 0 {
                    // A transient failure first (nothing delivered): the
                    // caller retries on the same decoder.
                    let mut failing = transient_failure(piece, step.aux);
                    let att = NonZeroUsize::new(1 + (step.aux >> 44) as usize % 3).unwrap();
                    match dec.decode_read(&mut failing, piece.len().max(1), att) {
                        Ok(0) | Err(_) => obs.failed_reads_retried += 1,
                        Ok(n) => return Err(fail(&["C17"], "decode_read-count", format!("decode_read returned {} from a reader that delivered nothing", n))),
                    }
                }
                let mut r = scripted(piece, step.aux);
                let extra = (step.aux >> 24) as usize % 3;
                match dec.decode_read(&mut r, piece.len() + extra, MAX_ATTEMPTS) {
                    Ok(n) => {
                        if n != piece.len() {
                            return Err(fail(&["C17"], "decode_read-count", format!("decode_read returned {} for a {}-byte piece", n, piece.len())));
                        }
                        Ok(())
                    }
                    Err(e) => {
                        if e.kind() == std::io::ErrorKind::Other && e.get_ref().map(|i| i.is::<DecodingError>()).unwrap_or(false) {
                            Err(())
                        } else {
                            return Err(fail(&["C17"], "decode_read-err", format!("decode_read failed on a benign reader: {}", e)));
                        }
                    }
                }
            }
        };
        if r.is_err() {
            return Ok(true);
        }
        let full_peek = heavy_monitor || si % 16 == 0 || step.drain != Drain::None;
        observe_and_drain(dec.consumer(), step.drain, step.poke, obs, owned, None, true, full_peek, soft)?;
    }
    if let Some(r) = held.take() {
        if dec.decode_anchored(r).is_err() {
            return Ok(true);
        }
    }
    Ok(false)
}

/// Feeds `enc` to a decoder according to `plan`.
pub fn run_decode(params: Params, enc: &[u8], plan: &[PieceStep], owned: &Owned, heavy_monitor: bool, soft: &mut Soft) -> Result<DecodeOut, Fail> {
    let mut obs = SideObs::default();
    let mut dec = AnyDec::new(params);
    let mut held = None;
    let rejected = decode_segment(&mut dec, enc, plan, &mut obs, owned, heavy_monitor, soft, &mut held)?;
    if rejected {
        // The decoder refused the input, but what it decoded before the
        // error stays readable through its consumer: it must stay alive and
        // unchanged while the arena moves on (C05).
        let snapshot = |dec: &mut AnyDec<'_>, obs: &mut SideObs| -> Result<Vec<u8>, Fail> {
            let cons = dec.consumer();
            let prefix = cons.stable_prefix();
            expose::check_view(prefix, owned, &mut obs.expose).map_err(|e| fail(&["C05"], "expose-after-reject", e))?;
            let mut v = Vec::new();
            for s in prefix {
                v.extend_from_slice(s);
            }
            Ok(v)
        };
        let before = snapshot(&mut dec, &mut obs)?;
        {
            let mut cons = dec.consumer();
            cons.arena().flush_cache();
            cons.arena().ensure_capacity(5000);
            let junk = [0xC3u8; 700];
            let _ = cons.arena().read_n(&junk[..], 700, MAX_ATTEMPTS);
            cons.arena().flush_cache();
        }
        let after = snapshot(&mut dec, &mut obs)?;
        if before != after {
            return Err(fail(&["C05"], "changed-after-reject", format!("bytes readable through a rejecting decoder's consumer changed after the arena moved on (offset {})", first_diff(&before, &after))));
        }
        return Ok(DecodeOut { result: None, obs });
    }
    match dec.finish() {
        Err(_) => Ok(DecodeOut { result: None, obs }),
        Ok(iov) => {
            {
                let prefix = iov.stable_prefix();
                if let Err(e) = expose::check_view(prefix, owned, &mut obs.expose) {
                    expose_failed(soft, "expose", e)?;
                }
            }
            let tail = iov
                .flatten()
                .map_err(|_| fail(&["C01", "C09"], "dec-finish-pending", "Decoder::finish() output has pending backrefs".into()))?;
            let mut total = std::mem::take(&mut obs.drained);
            total.extend_from_slice(&tail);
            drop(iov);
            check_peeks(&obs, &total, "decoder")?;
            Ok(DecodeOut { result: Some(total), obs })
        }
    }
}

/// One-shot, undrained encoding by the real encoder (C02 baseline).
fn one_shot(params: Params, input: &[u8]) -> Result<Vec<u8>, Fail> {
    let mut enc = AnyEnc::new(params);
    enc.encode_copy(input);
    enc.finish()
        .flatten()
        .map_err(|_| fail(&["C01", "C04"], "finish-pending", "one-shot Encoder::finish() left a backpatch pending".into()))
}

fn find_stuff(bytes: &[u8]) -> Option<usize> {
    bytes.windows(2).position(|w| w == [0xFE, 0xFD])
}

fn first_diff(a: &[u8], b: &[u8]) -> usize {
    a.iter().zip(b.iter()).position(|(x, y)| x != y).unwrap_or(a.len().min(b.len()))
}

/// Reference chunking of the plain input -> feature bits.
fn chunk_features(ctx: &mut Ctx, input: &[u8], cut_positions: &[usize], params: Params) -> u64 {
    let (first, later) = params.limits();
    let tag = if params == Params::Prod { "prod" } else { "tiny" };
    let mut bits = 0u64;
    let mut pos = 0usize;
    let mut idx = 0usize;
    let mut full_ends: Vec<usize> = Vec::new();
    loop {
        let limit = if idx == 0 { first } else { later };
        let end = (pos + limit).min(input.len());
        let w = &input[pos..end];
        let cls = if idx == 0 { "first" } else { "later" };
        if let Some(i) = find_stuff(w) {
            ctx.feature(&format!("codec.{}.chunk_end.stuff.{}", tag, cls));
            bits |= 1 << (if idx == 0 { 0 } else { 1 });
            if i == 0 {
                ctx.feature(&format!("codec.{}.zero_length_chunk", tag));
                bits |= 1 << 2;
            }
            pos += i + 2;
        } else if w.len() == limit {
            ctx.feature(&format!("codec.{}.chunk_end.limit.{}", tag, cls));
            bits |= 1 << (if idx == 0 { 3 } else { 4 });
            pos += limit;
            full_ends.push(pos);
            if pos < input.len() && input[pos - 1] == 0xFE && input[pos] == 0xFD {
                ctx.feature(&format!("codec.{}.fe_last_of_full_chunk_fd_first_of_next", tag));
                bits |= 1 << 5;
            }
            if pos == input.len() {
                ctx.feature(&format!("codec.{}.terminator_after_full_chunk", tag));
                bits |= 1 << 6;
            }
        } else {
            ctx.feature(&format!("codec.{}.chunk_end.input.{}", tag, cls));
            bits |= 1 << (if idx == 0 { 7 } else { 8 });
            break;
        }
        idx += 1;
    }
    // hold-back situations at call boundaries
    for &c in cut_positions {
        if c == 0 || c >= input.len() {
            continue;
        }
        if input[c - 1] == 0xFE && !full_ends.contains(&c) {
            if input[c] == 0xFD {
                ctx.feature(&format!("codec.{}.call_boundary_inside_FE|FD", tag));
                bits |= 1 << 9;
            } else {
                ctx.feature(&format!("codec.{}.call_boundary_after_FE_released_as_data", tag));
                bits |= 1 << 10;
            }
        }
        if full_ends.contains(&c) {
            ctx.feature(&format!("codec.{}.call_boundary_at_chunk_limit", tag));
            bits |= 1 << 11;
        }
    }
    if !input.is_empty() && input[input.len() - 1] == 0xFE {
        ctx.feature(&format!("codec.{}.input_ends_with_FE", tag));
        bits |= 1 << 12;
    }
    bits
}

fn plan_bits(plan: &[PieceStep]) -> u64 {
    let mut bits = 0u64;
    let mut prev: Option<Method> = None;
    for s in plan {
        let m = s.method as u64;
        bits |= 1 << m;
        if let Some(p) = prev {
            if p != s.method {
                bits |= 1 << (8 + ((p as u64 * 6 + m) % 36));
            }
        }
        prev = Some(s.method);
        let d = match s.drain {
            Drain::None => 0,
            Drain::Peek => 1,
            Drain::ConsumeAll => 2,
            Drain::Consume(_) => 3,
            Drain::Advance(_) => 4,
            Drain::AdvanceAllButOne => 5,
            Drain::ReadBuf(_) => 6,
        };
        bits |= 1 << (44 + d);
        let p = match s.poke {
            Poke::None => 0,
            Poke::Flush => 1,
            Poke::Ensure(_) => 2,
            Poke::TakeSwap => 3,
        };
        bits |= 1 << (52 + p);
    }
    bits
}

fn count_plan_features(ctx: &mut Ctx, side: &str, plan: &[PieceStep]) {
    let mut prev_end = 0usize;
    for s in plan {
        if s.end == prev_end && s.end > 0 {
            ctx.feature(&format!("codec.{}.zero_length_piece_in_the_middle", side));
        }
        prev_end = s.end;
        ctx.feature(&format!("codec.{}.method.{:?}", side, s.method));
        match s.drain {
            Drain::None => {}
            d => ctx.feature(&format!(
                "codec.{}.drain.{}",
                side,
                match d {
                    Drain::Peek => "peek",
                    Drain::ConsumeAll | Drain::Consume(_) => "consume",
                    Drain::Advance(_) | Drain::AdvanceAllButOne => "advance_slices",
                    Drain::ReadBuf(_) => "read",
                    Drain::None => "none",
                }
            )),
        }
        if s.poke != Poke::None {
            ctx.feature(&format!("codec.{}.arena_poke", side));
        }
    }
}

pub struct RoundTripCase<'a> {
    pub params: Params,
    pub input: &'a [u8],
    pub enc_plan: Vec<PieceStep>,
    /// decode plan is generated once the encoding is known
    pub dec_seed: u64,
    pub dec_drain_weight: u32,
    pub heavy: bool,
    pub miri: bool,
}

fn case_json(kind: &str, index: u64, params: Params, input: &[u8], enc_plan: &[PieceStep], dec_plan: Option<&[PieceStep]>) -> Json {
    let mut o = Json::obj()
        .with("kind", Json::s(kind))
        .with("index", Json::U(index))
        .with("params", params.json())
        .with("input_len", Json::U(input.len() as u64))
        .with("input", Json::hex(input))
        .with("encode_plan", plan_json(enc_plan));
    if let Some(d) = dec_plan {
        o.set("decode_plan", plan_json(d));
    }
    o
}

/// Full round trip with all oracles.  Returns the feature signature.
fn round_trip(ctx: &mut Ctx, kind: &str, index: u64, case: &RoundTripCase<'_>) -> Option<u64> {
    let params = case.params;
    let (first, later) = params.limits();
    let input = case.input;
    let base_chunks = ByteArena::num_live_chunks();
    let base_bytes = ByteArena::num_live_bytes();
    let cutpos: Vec<usize> = case.enc_plan.iter().map(|s| s.end).collect();
    let mut owned = Owned::new();
    owned.add(input);

    let mut dec_plan_used: Option<Vec<PieceStep>> = None;
    let mut sig_bits = (0u64, 0u64, 0u64);
    let mut soft: Soft = Vec::new();
    let mut partial_decodes = 0u64;
    let mut retried_reads = 0u64;
    let res = catch(|| -> Result<(usize, usize), Fail> {
        let enc_out = run_encode(params, input, &case.enc_plan, &owned, case.heavy, &mut soft)?;
        let e = &enc_out.total;

        // C02 (a): no stuff sequence anywhere in the produced bytes.
        // The oracles below are independent: each failure is recorded (as a
        // "soft" failure) and the remaining ones are still evaluated, so that
        // one broken clause does not mask another property.
        if let Some(p) = find_stuff(e) {
            soft.push(fail(&["C02"], "stuff-in-output", format!("encoded output contains FE FD at offset {}", p)));
        }
        // C02 (c): length bound.
        let bound = hcobs_ref::length_bound(input.len(), later);
        if first <= later {
            if e.len() > bound {
                soft.push(fail(&["C02"], "length-bound", format!("encoded length {} > bound {} for input length {}", e.len(), bound, input.len())));
            }
        }
        // C02 (b): equals the one-shot, undrained output of the real encoder.
        let e1 = one_shot(params, input)?;
        if *e != e1 {
            // Attribute: does the same plan without drains also differ?
            let undrained: Vec<PieceStep> = case.enc_plan.iter().map(|s| PieceStep { drain: Drain::None, poke: Poke::None, ..*s }).collect();
            let again = run_encode(params, input, &undrained, &owned, false, &mut Vec::new()).map(|o| o.total).unwrap_or_default();
            let d = first_diff(e, &e1);
            if again == e1 {
                soft.push(fail(&["C02", "C09"], "drain-dependent", format!("output differs from the undrained run of the same calls (first difference at {}; lengths {} vs {})", d, e.len(), e1.len())));
            } else {
                soft.push(fail(&["C02"], "split-dependent", format!("output differs from the one-shot encoding (first difference at {}; lengths {} vs {})", d, e.len(), e1.len())));
            }
        }
        // C07 encoder: canonical format per the independent reference.
        let r = hcobs_ref::encode(input, first, later);
        if *e != r {
            let d = first_diff(e, &r);
            soft.push(fail(&["C07"], "non-canonical", format!("encoder output differs from the reference encoding at offset {} (lengths {} vs {})", d, e.len(), r.len())));
        }

        // Decode side, independent plan.
        let mut rng = Rng::new(case.dec_seed);
        let marks: Vec<usize> = {
            // header positions of the reference chunking make good marks
            let mut m = vec![1usize, 1 + first.min(e.len())];
            let mut k = 0;
            for (i, b) in e.iter().enumerate() {
                if *b == 0xFE || *b >= 0xFD {
                    m.push(i);
                    k += 1;
                    if k > 20 {
                        break;
                    }
                }
            }
            m
        };
        let dplan = random_plan(&mut rng, e.len(), &marks, case.dec_drain_weight, case.miri);
        let mut owned2 = owned.clone();
        owned2.add(e);
        let dec_out = run_decode(params, e, &dplan, &owned2, case.heavy, &mut soft);
        let pb = plan_bits(&dplan);
        dec_plan_used = Some(dplan);
        let dec_out = dec_out?;
        match dec_out.result {
            None => {
                return Err(fail(&["C01", "C07"], "roundtrip-reject", "decoder rejected the encoder's output".into()));
            }
            Some(d) => {
                if d != input {
                    let p = first_diff(&d, input);
                    return Err(fail(&["C01"], "roundtrip-bytes", format!("decoded bytes differ from the original at offset {} (lengths {} vs {})", p, d.len(), input.len())));
                }
            }
        }
        sig_bits.2 = pb;
        retried_reads = enc_out.obs.failed_reads_retried + dec_out.obs.failed_reads_retried;
        // C09, decoder side: abandon a decoder part-way (Decoder::take_iovec
        // instead of finish): what was drained plus what it still holds must
        // be a prefix of the message.
        if params == Params::Prod && case.dec_seed % 3 == 0 {
            if let Some(dplan) = dec_plan_used.as_ref().filter(|p| p.len() > 1) {
                let k = 1 + (case.dec_seed / 3) as usize % (dplan.len() - 1);
                let mut obs = SideObs::default();
                let mut dec = AnyDec::new(params);
                let mut held = None;
                let fed = dplan[k - 1].end;
                if decode_segment(&mut dec, &e[..fed], &dplan[..k], &mut obs, &owned2, false, &mut soft, &mut held)? {
                    return Err(fail(&["C01", "C07"], "prefix-reject", format!("decoder rejected the first {} bytes of the encoder's output", fed)));
                }
                if let AnyDec::Prod(d) = dec {
                    let iov = d.take_iovec();
                    let tail = iov.flatten().map_err(|_| fail(&["C09"], "dec-pending", "decoder output has pending backrefs".into()))?;
                    let mut got = std::mem::take(&mut obs.drained);
                    got.extend_from_slice(&tail);
                    if !input.starts_with(&got) {
                        return Err(fail(&["C09"], "take_iovec-not-prefix", format!("after {} of {} encoded bytes, drained bytes plus Decoder::take_iovec() ({} bytes) are not a prefix of the message (first difference at {})", fed, e.len(), got.len(), first_diff(&got, input))));
                    }
                    partial_decodes += 1;
                }
            }
        }
        Ok((enc_out.obs.max_lag, enc_out.obs.max_live_bytes.max(dec_out.obs.max_live_bytes)))
    });

    let cf = chunk_features(ctx, input, &cutpos, params);
    sig_bits.0 = cf;
    sig_bits.1 = plan_bits(&case.enc_plan);
    count_plan_features(ctx, "enc", &case.enc_plan);
    if let Some(d) = &dec_plan_used {
        count_plan_features(ctx, "dec", d);
    }
    ctx.ops += case.enc_plan.len() as u64 + dec_plan_used.as_ref().map(|d| d.len()).unwrap_or(0) as u64;
    ctx.feature_n("codec.dec.abandoned_midway_take_iovec_is_prefix", partial_decodes);
    ctx.feature_n("codec.reads_retried_after_a_transient_failure", retried_reads);

    let mk_case = |dec: Option<&[PieceStep]>| case_json(kind, index, params, input, &case.enc_plan, dec);
    let had_soft = !soft.is_empty();
    for f in soft.drain(..).take(4) {
        ctx.violate(&f.props, &f.sig, f.what, mk_case(dec_plan_used.as_deref()));
    }
    match res {
        Err(panic) => {
            ctx.violate(
                &["C01", "C07", "C09"],
                &format!("panic:{}", panic_sig(&panic)),
                format!("codec panicked: {}", panic),
                mk_case(dec_plan_used.as_deref()),
            );
            return None;
        }
        Ok(Err(f)) => {
            ctx.violate(&f.props, &f.sig, f.what, mk_case(dec_plan_used.as_deref()));
            return None;
        }
        Ok(Ok((lag, live))) => {
            let tag = if params == Params::Prod { "prod" } else { "tiny" };
            ctx.maximum(&format!("codec.{}.max_encoder_lag_bytes", tag), lag as u64);
            ctx.maximum(&format!("codec.{}.max_live_arena_bytes", tag), live as u64);
        }
    }

    // C10 drop accounting: everything of this case has been dropped.
    let (c, b) = (ByteArena::num_live_chunks(), ByteArena::num_live_bytes());
    if c != base_chunks || b != base_bytes {
        ctx.violate(
            &["C10"],
            "leak-after-drop",
            format!("live arena chunks/bytes {}/{} after the case, {}/{} before", c, b, base_chunks, base_bytes),
            mk_case(dec_plan_used.as_deref()),
        );
        return None;
    }
    ctx.feature("codec.drop_accounting_checked");
    if had_soft {
        return None;
    }
    Some(mix(&[params.limits().0 as u64, params.limits().1 as u64, sig_bits.0, sig_bits.1, sig_bits.2]))
}

// ---------------------------------------------------------------------------
// Recycled iovecs: several messages through one iovec / arena

struct MsgSpec {
    /// (offset, length) of the part of this message that was read into the
    /// previous codec's arena (as an AnchoredSlice) before that codec finished
    carry: Option<(usize, usize)>,
    plan_a: Vec<PieceStep>,
    plan_b: Vec<PieceStep>,
    /// what happens to the finished iovec before the next codec adopts it:
    /// 0 clear(), 1 advance_slices(all), 2 kept as is, 3 consume(all)
    recycle: u8,
    aux: u64,
}

fn chain_json(index: u64, decode_side: bool, feeds: &[Vec<u8>], specs: &[MsgSpec]) -> Json {
    Json::obj()
        .with("kind", Json::s("reuse-chain"))
        .with("index", Json::U(index))
        .with("side", Json::s(if decode_side { "decoder" } else { "encoder" }))
        .with(
            "messages",
            Json::Arr(
                feeds
                    .iter()
                    .zip(specs.iter())
                    .map(|(f, sp)| {
                        Json::obj()
                            .with("fed_len", Json::U(f.len() as u64))
                            .with("fed", Json::hex(&f[..f.len().min(4096)]))
                            .with("carried_range", Json::Str(format!("{:?}", sp.carry)))
                            .with("recycle", Json::U(sp.recycle as u64))
                            .with("plan_before_carry", plan_json(&sp.plan_a))
                            .with("plan_after_carry", plan_json(&sp.plan_b))
                    })
                    .collect(),
            ),
        )
}

/// Messages 0..k go through codecs that adopt the previous codec's finished
/// iovec (`new_from_iovec`), after it was cleared, drained or left as is.  A
/// part of message m+1 may already sit in the arena as an AnchoredSlice read
/// through codec m.  Every message's output must be what a fresh codec
/// produces (after whatever the iovec still held).
fn reuse_chain(ctx: &mut Ctx, idx: u64, rng: &mut Rng, miri: bool, drain_weight: u32) -> Option<u64> {
    let k = rng.range(2, 4);
    let decode_side = rng.chance(1, 2);
    let cap = if miri { 400 } else if rng.chance(1, 8) { 140_000 } else { 3000 };
    let msgs: Vec<Vec<u8>> = (0..k).map(|_| gen_prod_input(rng, cap)).collect();
    let encs: Vec<Vec<u8>> = msgs.iter().map(|m| hcobs_ref::encode(m, hcobs_ref::PROD_FIRST, hcobs_ref::PROD_LATER)).collect();
    let (feeds, wants) = if decode_side { (encs, msgs) } else { (msgs, encs) };
    let mut specs: Vec<MsgSpec> = Vec::new();
    for (m, f) in feeds.iter().enumerate() {
        let carry = if m > 0 && !f.is_empty() && rng.chance(3, 4) {
            let p = rng.range(0, f.len() - 1);
            let h = if rng.chance(1, 4) { rng.range(0, (f.len() - p).min(64)) } else { rng.range(0, f.len() - p) };
            Some((p, h))
        } else {
            None
        };
        let (a_len, b_len) = match carry {
            Some((p, h)) => (p, f.len() - p - h),
            None => (f.len(), 0),
        };
        let plan_a = random_plan(rng, a_len, &[1, 252, 253, 254], drain_weight, miri);
        let plan_b = if carry.is_some() { random_plan(rng, b_len, &[1, 252], drain_weight, miri) } else { Vec::new() };
        specs.push(MsgSpec { carry, plan_a, plan_b, recycle: rng.below(4) as u8, aux: rng.next_u64() });
    }
    let base_chunks = ByteArena::num_live_chunks();
    let base_bytes = ByteArena::num_live_bytes();
    let mut owned = Owned::new();
    for f in &feeds {
        owned.add(f);
    }
    ctx.begin_case(idx, || chain_json(idx, decode_side, &feeds, &specs));
    let mut soft: Soft = Vec::new();
    let mut carried = 0u64;
    let res = catch(|| -> Result<(), Fail> {
        let mut iov: Option<OwningIovec<'_>> = None;
        let mut carry: Option<AnchoredSlice> = None;
        let mut leftover: Vec<u8> = Vec::new();
        for m in 0..k {
            let sp = &specs[m];
            let feed: &[u8] = &feeds[m];
            let mut obs = SideObs::default();
            let mut held = None;
            let next_carry = if m + 1 < k { specs[m + 1].carry.map(|(p, h)| &feeds[m + 1][p..p + h]) } else { None };
            let (total, mut done): (Vec<u8>, OwningIovec<'_>) = if decode_side {
                let mut dec = match iov.take() {
                    None => AnyDec::new(Params::Prod),
                    Some(i) => AnyDec::Prod(hcobs::Decoder::new_from_iovec(i)),
                };
                let mut rejected = match sp.carry {
                    Some((p, h)) => {
                        let mut r = decode_segment(&mut dec, &feed[..p], &sp.plan_a, &mut obs, &owned, false, &mut soft, &mut held)?;
                        let c = carry.take().expect("carried slice");
                        if c.slice() != &feed[p..p + h] && soft.iter().all(|f| f.sig != "carried-bytes") {
                            soft.push(fail(&["C05", "C01"], "carried-bytes", format!("message {}: the AnchoredSlice read before the previous decoder finished no longer holds its bytes", m)));
                        }
                        r = r || dec.decode_anchored(c).is_err();
                        carried += 1;
                        r || decode_segment(&mut dec, &feed[p + h..], &sp.plan_b, &mut obs, &owned, false, &mut soft, &mut held)?
                    }
                    None => decode_segment(&mut dec, feed, &sp.plan_a, &mut obs, &owned, false, &mut soft, &mut held)?,
                };
                if let Some(n) = next_carry {
                    carry = Some(read_anchored_dec(&mut dec, n, sp.aux, &mut obs)?);
                }
                let done = match dec.finish() {
                    Ok(i) => Some(i),
                    Err(_) => {
                        rejected = true;
                        None
                    }
                };
                if rejected || done.is_none() {
                    return Err(fail(&["C01", "C07"], "reuse-reject", format!("message {}: a decoder that adopted a recycled iovec rejected a valid encoding", m)));
                }
                let done = done.unwrap();
                let tail = done.flatten().map_err(|_| fail(&["C01", "C09"], "dec-finish-pending", "Decoder::finish() output has pending backrefs".into()))?;
                let mut total = std::mem::take(&mut obs.drained);
                total.extend_from_slice(&tail);
                check_peeks(&obs, &total, "decoder")?;
                (total, done)
            } else {
                let mut enc = match iov.take() {
                    None => AnyEnc::new(Params::Prod),
                    Some(i) => AnyEnc::Prod(hcobs::Encoder::new_from_iovec(i)),
                };
                let lag = Some(lag_limit_for(Params::Prod) + leftover.len());
                match sp.carry {
                    Some((p, h)) => {
                        encode_segment(&mut enc, &feed[..p], &sp.plan_a, &mut obs, &owned, false, &mut soft, &mut held, lag)?;
                        let c = carry.take().expect("carried slice");
                        if c.slice() != &feed[p..p + h] && soft.iter().all(|f| f.sig != "carried-bytes") {
                            soft.push(fail(&["C05", "C02"], "carried-bytes", format!("message {}: the AnchoredSlice read before the previous encoder finished no longer holds its bytes", m)));
                        }
                        enc.encode_anchored(c);
                        carried += 1;
                        encode_segment(&mut enc, &feed[p + h..], &sp.plan_b, &mut obs, &owned, false, &mut soft, &mut held, lag)?;
                    }
                    None => encode_segment(&mut enc, feed, &sp.plan_a, &mut obs, &owned, false, &mut soft, &mut held, lag)?,
                }
                if let Some(n) = next_carry {
                    carry = Some(read_anchored_enc(&mut enc, n, sp.aux, &mut obs)?);
                }
                let (out, done) = finish_encode(enc, obs, &owned, &mut soft)?;
                (out.total, done)
            };
            let mut want = std::mem::take(&mut leftover);
            want.extend_from_slice(&wants[m]);
            if total != want {
                let d = first_diff(&total, &want);
                let props: &[&'static str] = if decode_side { &["C01"] } else { &["C02", "C07"] };
                return Err(fail(
                    props,
                    "reuse-output",
                    format!("message {}: a codec that adopted a recycled iovec produced other bytes than a fresh one (first difference at {}; lengths {} vs {})", m, d, total.len(), want.len()),
                ));
            }
            let rest = done.total_size();
            match sp.recycle {
                0 => done.clear(),
                1 => {
                    let n = done.consumer().advance_slices(usize::MAX);
                    if n != rest {
                        soft.push(fail(&["C03", "C09"], "advance-ret", format!("advance_slices(MAX) returned {} with {} stable bytes", n, rest)));
                    }
                }
                2 => {
                    leftover = done.flatten().unwrap_or_else(|v| v);
                }
                _ => {
                    let _ = done.consumer().consume(usize::MAX);
                }
            }
            if sp.recycle != 2 && !done.is_empty() {
                return Err(fail(&["C03"], "recycle-not-empty", "iovec not empty after clear / full consumption".into()));
            }
            iov = Some(done);
        }
        Ok(())
    });
    ctx.ops += specs.iter().map(|s| (s.plan_a.len() + s.plan_b.len()) as u64).sum::<u64>();
    let had_soft = !soft.is_empty();
    for f in soft.drain(..).take(4) {
        ctx.violate(&f.props, &f.sig, f.what, chain_json(idx, decode_side, &feeds, &specs));
    }
    let ret = match res {
        Err(panic) => {
            ctx.violate(&["C01", "C02", "C05"], &format!("panic:{}", panic_sig(&panic)), format!("codec panicked: {}", panic), chain_json(idx, decode_side, &feeds, &specs));
            None
        }
        Ok(Err(f)) => {
            ctx.violate(&f.props, &f.sig, f.what, chain_json(idx, decode_side, &feeds, &specs));
            None
        }
        Ok(Ok(())) => {
            let (c, b) = (ByteArena::num_live_chunks(), ByteArena::num_live_bytes());
            if c != base_chunks || b != base_bytes {
                ctx.violate(&["C10"], "leak-after-drop", format!("live arena chunks/bytes {}/{} after the case, {}/{} before", c, b, base_chunks, base_bytes), chain_json(idx, decode_side, &feeds, &specs));
                None
            } else if had_soft {
                None
            } else {
                let side = if decode_side { "decoder" } else { "encoder" };
                ctx.feature(&format!("codec.reuse.{}_chains", side));
                ctx.feature_n(&format!("codec.reuse.{}.anchored_slices_carried_into_the_next_message", side), carried);
                for sp in &specs[..k - 1] {
                    ctx.feature(&format!("codec.reuse.recycle.{}", ["clear", "advance_all", "kept", "consume_all"][sp.recycle as usize]));
                }
                Some(mix(&[77, decode_side as u64, k as u64, carried, specs.iter().fold(0u64, |a, s| a * 5 + s.recycle as u64 + 1), specs.iter().fold(0u64, |a, s| a ^ plan_bits(&s.plan_a) ^ plan_bits(&s.plan_b).rotate_left(7))]))
            }
        }
    };
    ctx.end_case(idx);
    ret
}

// ---------------------------------------------------------------------------
// Decoder acceptance cases (C07 decoder half)

fn decoder_case(ctx: &mut Ctx, kind: &str, index: u64, params: Params, x: &[u8], plan: &[PieceStep], heavy: bool) -> Option<u64> {
    let (first, later) = params.limits();
    let mut owned = Owned::new();
    owned.add(x);
    let expected = hcobs_ref::decode(x, first, later);
    let mut soft: Soft = Vec::new();
    let res = catch(|| run_decode(params, x, plan, &owned, heavy, &mut soft));
    for f in soft.drain(..).take(2) {
        ctx.violate(&f.props, &f.sig, f.what, Json::obj().with("kind", Json::s(kind)).with("index", Json::U(index)).with("encoded", Json::hex(x)));
    }
    count_plan_features(ctx, "dec", plan);
    ctx.ops += plan.len() as u64;
    let mk = || {
        Json::obj()
            .with("kind", Json::s(kind))
            .with("index", Json::U(index))
            .with("params", params.json())
            .with("encoded_len", Json::U(x.len() as u64))
            .with("encoded", Json::hex(x))
            .with("decode_plan", plan_json(plan))
            .with("reference_accepts", Json::Bool(expected.is_some()))
    };
    match res {
        Err(panic) => {
            ctx.violate(&["C07", "C01"], &format!("panic:{}", panic_sig(&panic)), format!("decoder panicked: {}", panic), mk());
            None
        }
        Ok(Err(f)) => {
            ctx.violate(&f.props, &f.sig, f.what, mk());
            None
        }
        Ok(Ok(out)) => {
            match (&out.result, &expected) {
                (None, None) => {
                    ctx.feature("codec.dec.rejected_as_expected");
                }
                (Some(a), Some(b)) => {
                    if a != b {
                        let p = first_diff(a, b);
                        ctx.violate(&["C07"], "decode-bytes", format!("decoder output differs from the format's meaning at offset {} (lengths {} vs {})", p, a.len(), b.len()), mk());
                        return None;
                    }
                    ctx.feature("codec.dec.accepted_as_expected");
                }
                (Some(_), None) => {
                    ctx.violate(&["C07"], "accepts-malformed", "decoder accepted a byte string that is not a well-formed chunk sequence ending on a short chunk".into(), mk());
                    return None;
                }
                (None, Some(_)) => {
                    ctx.violate(&["C07"], "rejects-wellformed", "decoder rejected a well-formed chunk sequence ending on a short chunk".into(), mk());
                    return None;
                }
            }
            Some(mix(&[9, first as u64, later as u64, expected.is_some() as u64, plan_bits(plan), hash_bytes(&x[..x.len().min(16)]), x.len() as u64]))
        }
    }
}

fn mutate_encoding(rng: &mut Rng, enc: &mut Vec<u8>, params: Params) -> &'static str {
    let (first, later) = params.limits();
    if enc.is_empty() {
        enc.push(*rng.pick(&[0u8, 1, 0xFC, 0xFD, 0xFE, 0xFF]));
        return "single-byte";
    }
    match rng.below(8) {
        0 => {
            let k = rng.usize_below(enc.len() + 1);
            enc.truncate(k);
            "truncate"
        }
        1 => {
            // corrupt the first header
            enc[0] = *rng.pick(&[0xFDu8, 0xFE, 0xFF, 0xFC, 0x00, (first as u8).wrapping_add(1), first as u8]);
            "first-header"
        }
        2 => {
            // corrupt a later header byte: walk the reference chunking
            let mut pos = 1 + (enc[0] as usize).min(enc.len().saturating_sub(1));
            let mut heads = Vec::new();
            while pos + 1 < enc.len() {
                heads.push(pos);
                let l = enc[pos] as usize + 253 * enc[pos + 1] as usize;
                pos += 2 + l;
            }
            if let Some(h) = heads.get(rng.usize_below(heads.len().max(1))) {
                let which = rng.usize_below(2);
                let over = later + 1;
                let v = match rng.below(6) {
                    0 => 0xFD,
                    1 => 0xFE,
                    2 => 0xFF,
                    3 => if which == 0 { (over % 253) as u8 } else { (over / 253) as u8 },
                    4 => 0xFC,
                    _ => 0,
                };
                enc[h + which] = v;
            }
            "later-header"
        }
        3 => {
            let k = rng.usize_below(enc.len());
            enc[k] = enc[k].wrapping_add(1 + rng.below(255) as u8);
            "byte-substitution"
        }
        4 => {
            enc.push(*rng.pick(&[0u8, 1, 0xFC, 0xFD, 0xFE]));
            "extra-byte"
        }
        5 => {
            enc.extend_from_slice(&[0, 0]);
            "extra-empty-chunk"
        }
        6 => {
            let k = rng.usize_below(enc.len());
            enc.remove(k);
            "delete-byte"
        }
        _ => "unchanged",
    }
}

// ---------------------------------------------------------------------------
// Engine entry points

fn small_alphabet_string(mut code: u64, len: usize, alphabet: &[u8]) -> Vec<u8> {
    let mut v = Vec::with_capacity(len);
    for _ in 0..len {
        v.push(alphabet[(code % alphabet.len() as u64) as usize]);
        code /= alphabet.len() as u64;
    }
    v
}

const SWEEP_METHODS: [Method; 3] = [Method::Borrow, Method::Copy, Method::Anchored];
const SWEEP_DRAINS: [Drain; 3] = [Drain::None, Drain::ConsumeAll, Drain::Advance(1)];

/// Systematic tiny-limit sweep: all strings over {FE, FD, 00} up to `maxlen`
/// x all 2-way splits x method pairs x drain after the first piece (encode
/// side), and for the decode side all 2-way splits x method pairs of every
/// encoding.
fn run_tiny_sweep(ctx: &mut Ctx, index: &mut u64, maxlen: usize) {
    let alphabet = [0xFEu8, 0xFD, 0x00];
    let mut swept = 0u64;
    for &(first, later) in TINY_LIMITS.iter() {
        let params = Params::Tiny(first, later);
        for len in 0..=maxlen {
            let nstr = 3u64.pow(len as u32);
            for code in 0..nstr {
                // one index per string: all its splits/methods are done by the owner shard
                let idx = *index;
                *index += 1;
                if !ctx.mine(idx) {
                    continue;
                }
                let input = small_alphabet_string(code, len, &alphabet);
                ctx.begin_case(idx, || Json::obj().with("kind", Json::s("tiny-sweep")).with("index", Json::U(idx)).with("params", params.json()).with("input", Json::hex(&input)));
                let mut ok = true;
                let mut variants = 0u64;
                'outer: for split in 0..=len {
                    for m1 in SWEEP_METHODS.iter() {
                        for m2 in SWEEP_METHODS.iter() {
                            for d in SWEEP_DRAINS.iter() {
                                if split == 0 && (*m1 != SWEEP_METHODS[0] || *d != Drain::None) {
                                    // no first piece: m1 / drain are irrelevant, avoid duplicates
                                    continue;
                                }
                                let mut plan = Vec::new();
                                if split > 0 {
                                    plan.push(PieceStep { end: split, method: *m1, drain: *d, poke: Poke::None, aux: code ^ 0x55 });
                                }
                                // when split == len the second call gets an empty piece
                                plan.push(PieceStep { end: len, method: *m2, drain: Drain::None, poke: Poke::None, aux: code ^ 0xAA });
                                let case = RoundTripCase {
                                    params,
                                    input: &input,
                                    enc_plan: plan,
                                    dec_seed: mix(&[ctx.args.seed, idx, variants]),
                                    dec_drain_weight: 30,
                                    heavy: true,
                                    miri: true,
                                };
                                variants += 1;
                                ctx.cases += 1;
                                if round_trip(ctx, "tiny-sweep", idx, &case).is_none() {
                                    ok = false;
                                    break 'outer;
                                }
                            }
                        }
                    }
                }
                // decode side: all 2-way splits x method pairs of the canonical encoding
                if ok {
                    let enc = hcobs_ref::encode(&input, first, later);
                    'dec: for split in 0..=enc.len() {
                        for m1 in SWEEP_METHODS.iter() {
                            for m2 in SWEEP_METHODS.iter() {
                                let mut plan = Vec::new();
                                if split > 0 {
                                    plan.push(PieceStep { end: split, method: *m1, drain: Drain::None, poke: Poke::None, aux: code ^ 0x33 });
                                }
                                plan.push(PieceStep { end: enc.len(), method: *m2, drain: Drain::None, poke: Poke::None, aux: code ^ 0xCC });
                                variants += 1;
                                ctx.cases += 1;
                                if decoder_case(ctx, "tiny-sweep-decode", idx, params, &enc, &plan, true).is_none() {
                                    ok = false;
                                    break 'dec;
                                }
                            }
                        }
                    }
                }
                if ok {
                    ctx.signature(mix(&[77, first as u64, later as u64, len as u64, code]));
                    swept += variants;
                    if idx % 4099 == 0 {
                        ctx.sample(3, || Json::obj().with("kind", Json::s("tiny-sweep")).with("params", params.json()).with("input", Json::hex(&input)).with("variants", Json::U(variants)));
                    }
                }
                ctx.cases -= 1; // begin_case counted the string itself once already
                ctx.end_case(idx);
                if ctx.too_many_violations() {
                    return;
                }
            }
        }
    }
    ctx.feature_n("codec.tiny.sweep_variants", swept);
    if ctx.args.only.is_none() {
        ctx.exhaustive.insert(
            format!("H2 limits {:?}: all strings over {{FE,FD,00}} up to length {} x all 2-way splits x 3x3 input methods x 3 drains (encode) and x all 2-way splits x 3x3 methods (decode)", TINY_LIMITS, maxlen),
            1,
        );
    }
}

/// Exhaustive decoder acceptance sweep with tiny limits: all strings over a
/// 6-letter alphabet up to `maxlen`, fed one-shot and byte-by-byte.
fn run_tiny_decoder_sweep(ctx: &mut Ctx, index: &mut u64, maxlen: usize) {
    let alphabet = [0x00u8, 0x01, 0x02, 0xFC, 0xFD, 0xFE];
    for &(first, later) in &[(1usize, 1usize), (2, 3), (3, 5)] {
        let params = Params::Tiny(first, later);
        for len in 0..=maxlen {
            let nstr = 6u64.pow(len as u32);
            for code in 0..nstr {
                let idx = *index;
                *index += 1;
                if !ctx.mine(idx) {
                    continue;
                }
                let x = small_alphabet_string(code, len, &alphabet);
                ctx.begin_case(idx, || Json::obj().with("kind", Json::s("tiny-decoder-sweep")).with("index", Json::U(idx)).with("params", params.json()).with("encoded", Json::hex(&x)));
                let one = vec![PieceStep { end: len, method: Method::Borrow, drain: Drain::None, poke: Poke::None, aux: 1 }];
                let bytewise: Vec<PieceStep> = (1..=len.max(1)).map(|e| PieceStep { end: e.min(len), method: if e % 2 == 0 { Method::Copy } else { Method::Anchored }, drain: Drain::None, poke: Poke::None, aux: e as u64 }).collect();
                let a = decoder_case(ctx, "tiny-decoder-sweep", idx, params, &x, &one, true);
                let b = if a.is_some() { decoder_case(ctx, "tiny-decoder-sweep", idx, params, &x, &bytewise, true) } else { None };
                ctx.cases += 1;
                if let (Some(_), Some(_)) = (a, b) {
                    ctx.signature(mix(&[78, first as u64, later as u64, len as u64, code]));
                }
                ctx.end_case(idx);
                if ctx.too_many_violations() {
                    return;
                }
            }
        }
    }
    if ctx.args.only.is_none() {
        ctx.exhaustive.insert(format!("decoder acceptance, H2 limits (1,1) (2,3) (3,5): all strings over {{00,01,02,FC,FD,FE}} up to length {}, one-shot and byte-wise", maxlen), 1);
    }
}

fn gen_prod_input(rng: &mut Rng, max: usize) -> Vec<u8> {
    let len = gen::prod_length(rng, max);
    let style = *rng.pick(&gen::STYLES);
    let mut data = gen::payload(rng, len, style);
    if rng.chance(1, 2) {
        // FE / FD within +-2 bytes of the chunk limits
        let mut pos = vec![252usize, 251, 253];
        let mut p = 252 + 64008;
        while p < len + 3 {
            pos.push(p);
            pos.push(p - 1);
            p += 64008;
        }
        gen::plant_near(rng, &mut data, &pos);
    }
    data
}

fn gen_tiny_input(rng: &mut Rng, max: usize) -> Vec<u8> {
    let len = rng.range(0, max);
    let mut v = Vec::with_capacity(len);
    for _ in 0..len {
        v.push(*rng.pick(&[0xFEu8, 0xFD, 0xFE, 0xFD, 0x00, 0xFC, 0x41]));
    }
    v
}

pub fn run(ctx: &mut Ctx) {
    if let Err(e) = hcobs_ref::self_test() {
        ctx.inconclusive(format!("reference codec self-test failed: {}", e));
        return;
    }
    ctx.feature("codec.reference_self_test_passed");
    let thorough = ctx.args.thorough();
    let miri = ctx.args.miri();
    let mode = ctx.args.get("mode").unwrap_or("all").to_string();
    let sweep_len = ctx.args.get_u64("sweep-len", if thorough { 8 } else { 6 }) as usize;
    let dec_sweep_len = ctx.args.get_u64("dec-sweep-len", if thorough { 6 } else { 5 }) as usize;
    let prod_cases = ctx.args.get_u64("prod-cases", if thorough { 60_000 } else { 3_000 });
    let tiny_cases = ctx.args.get_u64("tiny-cases", if thorough { 2_000_000 } else { 100_000 });
    let dec_cases = ctx.args.get_u64("dec-cases", if thorough { 600_000 } else { 40_000 });
    let max_len = ctx.args.get_u64("max-len", if thorough { 400_000 } else { 200_000 }) as usize;
    let drain_weight = ctx.args.get_u64("drain-weight", 35) as u32;
    let mut index = 0u64;

    let has = |m: &str| mode == "all" || mode.split(',').any(|x| x == m);
    if has("sweep") {
        run_tiny_sweep(ctx, &mut index, sweep_len);
        if ctx.too_many_violations() {
            return;
        }
        run_tiny_decoder_sweep(ctx, &mut index, dec_sweep_len);
        if ctx.too_many_violations() {
            return;
        }
    }
    index = index.max(1 << 32);

    if has("random") {
        // random tiny-limit round trips
        for r in 0..tiny_cases {
            let idx = index;
            index += 1;
            if !ctx.mine(idx) {
                continue;
            }
            let mut rng = Rng::for_case(ctx.args.seed, "codec-tiny", r);
            let (a, b) = *rng.pick(&TINY_LIMITS);
            let params = Params::Tiny(a, b);
            let input = gen_tiny_input(&mut rng, if miri { 24 } else { 40 });
            let marks = gen::interesting_marks(&input, a, b, 32);
            let plan = random_plan(&mut rng, input.len(), &marks, drain_weight, true);
            ctx.begin_case(idx, || case_json("tiny-random", idx, params, &input, &plan, None));
            let case = RoundTripCase { params, input: &input, enc_plan: plan, dec_seed: rng.next_u64(), dec_drain_weight: drain_weight, heavy: true, miri: true };
            if let Some(sig) = round_trip(ctx, "tiny-random", idx, &case) {
                ctx.signature(sig);
                ctx.sample(2, || case_json("tiny-random", idx, params, &input, &case.enc_plan, None));
            }
            ctx.end_case(idx);
            if ctx.too_many_violations() {
                return;
            }
        }
        // production-limit round trips
        for r in 0..prod_cases {
            let idx = index;
            index += 1;
            if !ctx.mine(idx) {
                continue;
            }
            let mut rng = Rng::for_case(ctx.args.seed, "codec-prod", r);
            let input = if miri { gen_prod_input(&mut rng, 600) } else { gen_prod_input(&mut rng, max_len) };
            let marks = gen::interesting_marks(&input, 252, 64008, 24);
            let plan = random_plan(&mut rng, input.len(), &marks, drain_weight, miri);
            ctx.begin_case(idx, || case_json("prod-random", idx, Params::Prod, &input, &plan, None));
            let heavy = input.len() <= 8192;
            let case = RoundTripCase { params: Params::Prod, input: &input, enc_plan: plan, dec_seed: rng.next_u64(), dec_drain_weight: drain_weight, heavy, miri };
            if let Some(sig) = round_trip(ctx, "prod-random", idx, &case) {
                ctx.signature(sig);
                ctx.sample(3, || case_json("prod-random", idx, Params::Prod, &input, &case.enc_plan, None));
            }
            ctx.end_case(idx);
            if ctx.too_many_violations() {
                return;
            }
        }
    }
    index = index.max(3 << 31);
    if has("random") || has("reuse") {
        let reuse_cases = ctx.args.get_u64("reuse-cases", prod_cases / 2);
        for r in 0..reuse_cases {
            let idx = index;
            index += 1;
            if !ctx.mine(idx) {
                continue;
            }
            let mut rng = Rng::for_case(ctx.args.seed, "codec-reuse", r);
            if let Some(sig) = reuse_chain(ctx, idx, &mut rng, miri, drain_weight) {
                ctx.signature(sig);
            }
            if ctx.too_many_violations() {
                return;
            }
        }
    }
    index = index.max(2 << 32);

    if has("decoder") {
        for r in 0..dec_cases {
            let idx = index;
            index += 1;
            if !ctx.mine(idx) {
                continue;
            }
            let mut rng = Rng::for_case(ctx.args.seed, "codec-dec", r);
            let prod = rng.chance(1, 2);
            let params = if prod { Params::Prod } else { let (a, b) = *rng.pick(&TINY_LIMITS); Params::Tiny(a, b) };
            let (first, later) = params.limits();
            let plain = if prod {
                let cap = if miri { 400 } else if rng.chance(1, 10) { 140_000 } else { 1200 };
                gen_prod_input(&mut rng, cap)
            } else {
                gen_tiny_input(&mut rng, 20)
            };
            let mut x = hcobs_ref::encode(&plain, first, later);
            let kind = if rng.chance(1, 5) { "valid" } else { mutate_encoding(&mut rng, &mut x, params) };
            ctx.feature(&format!("codec.dec.input.{}", kind));
            let marks: Vec<usize> = vec![1, 2, 1 + first, 2 + first, 3 + first];
            let plan = random_plan(&mut rng, x.len(), &marks, drain_weight / 2, miri);
            ctx.begin_case(idx, || Json::obj().with("kind", Json::s("decoder-random")).with("index", Json::U(idx)).with("params", params.json()).with("encoded", Json::hex(&x)));
            if let Some(sig) = decoder_case(ctx, "decoder-random", idx, params, &x, &plan, x.len() <= 8192) {
                ctx.signature(sig);
            }
            ctx.end_case(idx);
            if ctx.too_many_violations() {
                return;
            }
        }
        // every truncation of some valid encodings (systematic)
        let trunc_msgs = if thorough { 400 } else { 60 };
        for r in 0..trunc_msgs {
            let idx = index;
            index += 1;
            if !ctx.mine(idx) {
                continue;
            }
            let mut rng = Rng::for_case(ctx.args.seed, "codec-trunc", r);
            let prod = rng.chance(2, 3);
            let params = if prod { Params::Prod } else { Params::Tiny(3, 5) };
            let (first, later) = params.limits();
            let plain = if prod { gen_prod_input(&mut rng, if miri { 300 } else { 900 }) } else { gen_tiny_input(&mut rng, 30) };
            let x = hcobs_ref::encode(&plain, first, later);
            ctx.begin_case(idx, || Json::obj().with("kind", Json::s("all-truncations")).with("index", Json::U(idx)).with("params", params.json()).with("encoded", Json::hex(&x)));
            let mut ok = true;
            for t in 0..x.len() {
                let plan = vec![PieceStep { end: t, method: if t % 2 == 0 { Method::Borrow } else { Method::Copy }, drain: Drain::None, poke: Poke::None, aux: t as u64 }];
                ctx.cases += 1;
                if decoder_case(ctx, "all-truncations", idx, params, &x[..t], &plan, false).is_none() {
                    ok = false;
                    break;
                }
            }
            if ok {
                ctx.feature_n("codec.dec.truncation_positions", x.len() as u64);
                ctx.signature(mix(&[79, r, x.len() as u64]));
            }
            ctx.end_case(idx);
            if ctx.too_many_violations() {
                return;
            }
        }
    }
}

// ---------------------------------------------------------------------------
// Long streams (C09 lag bound, C10 footprint bound)

#[derive(Clone, Copy, Debug, PartialEq, Eq)]
enum DrainPolicy {
    Never,
    AllEveryCall,
    Random,
}

#[derive(Clone, Copy, Debug, PartialEq, Eq)]
enum PieceDist {
    Bytes,
    Small,
    Medium,
    Large,
    Mixed,
    /// single calls of 1..8 MiB (borrow / copy only: a read of that size
    /// legitimately asks the arena for one chunk of that size)
    Huge,
}

fn next_piece(rng: &mut Rng, dist: PieceDist) -> usize {
    match dist {
        PieceDist::Bytes => rng.range(1, 4),
        PieceDist::Small => rng.range(1, 300),
        PieceDist::Medium => rng.range(1, 70_000),
        PieceDist::Large => rng.range(1, 262_144),
        PieceDist::Huge => rng.range(1 << 20, 8 << 20),
        PieceDist::Mixed => match rng.below(4) {
            0 => rng.range(1, 4),
            1 => rng.range(1, 300),
            2 => rng.range(1, 70_000),
            _ => rng.range(1, 262_144),
        },
    }
}

/// Drains everything consumable from `cons` by a randomly chosen mechanism,
/// handing the bytes to `sink`.  Returns the number of bytes drained.
fn drain_all(cons: &mut ConsumingIovec<'_>, rng: &mut Rng, leave_partial: bool, sink: &mut dyn FnMut(&[u8]) -> Result<(), Fail>) -> Result<usize, Fail> {
    let stable_len: usize = cons.stable_prefix().iter().map(|s| s.len()).sum();
    if stable_len == 0 {
        return Ok(0);
    }
    match rng.below(3) {
        0 => {
            let n = cons.stable_prefix().len();
            for s in cons.stable_prefix() {
                sink(s)?;
            }
            let got = cons.consume(n);
            if got != n {
                return Err(fail(&["C03", "C09"], "consume-ret", format!("consume({}) returned {}", n, got)));
            }
            Ok(stable_len)
        }
        1 => {
            // odd amounts that leave partial slices behind
            let keep = if leave_partial { rng.range(0, 3).min(stable_len) } else { 0 };
            let take = stable_len - keep;
            let mut left = take;
            for s in cons.stable_prefix() {
                if left == 0 {
                    break;
                }
                let k = left.min(s.len());
                sink(&s[..k])?;
                left -= k;
            }
            let got = cons.advance_slices(take);
            if got != take {
                return Err(fail(&["C03", "C09"], "advance-ret", format!("advance_slices({}) returned {}", take, got)));
            }
            Ok(take)
        }
        _ => {
            let mut buf = vec![0u8; stable_len.min(1 << 20)];
            let mut total = 0;
            while total < stable_len {
                let want = buf.len().min(stable_len - total);
                let got = cons.read(&mut buf[..want]).map_err(|e| fail(&["C03"], "read-err", e.to_string()))?;
                if got != want {
                    return Err(fail(&["C03", "C09"], "read-ret", format!("read({}) returned {}", want, got)));
                }
                sink(&buf[..got])?;
                total += got;
            }
            Ok(total)
        }
    }
}

struct StreamSpec {
    len: usize,
    style: gen::Style,
    dist: PieceDist,
    policy: DrainPolicy,
    pipeline: bool,
    method_mix: u8, // 0 borrow, 1 copy, 2 read, 3 mixed, 4 anchored slices read through a foreign arena, 5 mixed incl. foreign
}

fn stream_json(index: u64, s: &StreamSpec) -> Json {
    Json::obj()
        .with("kind", Json::s("long-stream"))
        .with("index", Json::U(index))
        .with("stream_len", Json::U(s.len as u64))
        .with("payload_style", Json::Str(format!("{:?}", s.style)))
        .with("piece_sizes", Json::Str(format!("{:?}", s.dist)))
        .with("drain_policy", Json::Str(format!("{:?}", s.policy)))
        .with("pipeline_encoder_to_decoder", Json::Bool(s.pipeline))
        .with("method_mix", Json::U(s.method_mix as u64))
}

const FOOTPRINT_BOUND: usize = 8 << 20;

fn run_one_stream(ctx: &mut Ctx, idx: u64, spec: &StreamSpec, rng: &mut Rng) -> Result<(usize, usize, usize), Fail> {
    let input = gen::payload(rng, spec.len, spec.style);
    let expected = hcobs_ref::encode(&input, hcobs_ref::PROD_FIRST, hcobs_ref::PROD_LATER);
    let base_chunks = ByteArena::num_live_chunks();
    let base_bytes = ByteArena::num_live_bytes();
    let lag_limit = lag_limit_for(Params::Prod);
    let mut max_lag = 0usize;
    let mut max_live = 0usize;
    let mut calls = 0usize;
    let mut foreign_anchored = 0u64;
    {
        let mut enc = hcobs::Encoder::new();
        let mut dec = hcobs::Decoder::new();
        let mut feeder = ByteArena::new();
        let mut enc_off = 0usize; // bytes of `expected` drained so far
        let mut dec_off = 0usize; // bytes of `input` drained from the decoder so far
        let mut pos = 0usize;
        let mut pending_for_decoder: Vec<u8> = Vec::new();
        while pos < input.len() {
            let n = next_piece(rng, spec.dist).min(input.len() - pos);
            let piece = &input[pos..pos + n];
            let m = match spec.method_mix {
                3 => rng.below(3) as u8,
                4 => 3,
                5 => rng.below(4) as u8,
                x => x,
            };
            match m {
                0 => enc.encode(piece),
                1 => enc.encode_copy(piece),
                3 => {
                    // read into an arena that is not the encoder's, then fed anchored
                    let a = feeder
                        .read_n(piece, n, MAX_ATTEMPTS)
                        .map_err(|e| fail(&["C17"], "read_n-err", e.to_string()))?;
                    if a.slice().len() != n {
                        return Err(fail(&["C17"], "read_n-count", format!("read_n returned {} of {}", a.slice().len(), n)));
                    }
                    enc.encode_anchored(a);
                    foreign_anchored += 1;
                }
                _ => {
                    let mut r = ScriptedReader::new(piece, Vec::new(), Tail::ServeAll);
                    r.log_calls = false;
                    let got = enc
                        .encode_read(&mut r, n, MAX_ATTEMPTS)
                        .map_err(|e| fail(&["C17"], "encode_read-err", e.to_string()))?;
                    if got != n {
                        return Err(fail(&["C17"], "encode_read-count", format!("encode_read returned {} of {}", got, n)));
                    }
                }
            }
            pos += n;
            calls += 1;

            let mut cons = enc.consumer();
            // The monitor itself must not be quadratic: with thousands of
            // buffered slices (never-drain streams) sample the lag.
            if cons.len() <= 2048 || calls % 64 == 0 {
                let total = cons.total_size();
                let stable: usize = cons.stable_prefix().iter().map(|s| s.len()).sum();
                let lag = total - stable;
                max_lag = max_lag.max(lag);
                if lag > lag_limit {
                    return Err(fail(&["C09"], "encoder-lag", format!("encoder lag {} > bound {} after {} input bytes", lag, lag_limit, pos)));
                }
            }
            let do_drain = match spec.policy {
                DrainPolicy::Never => false,
                DrainPolicy::AllEveryCall => true,
                DrainPolicy::Random => rng.chance(1, 3),
            };
            if do_drain {
                let pipeline = spec.pipeline;
                let mut sink = |bytes: &[u8]| -> Result<(), Fail> {
                    if enc_off + bytes.len() > expected.len() || &expected[enc_off..enc_off + bytes.len()] != bytes {
                        let d = first_diff(bytes, &expected[enc_off.min(expected.len())..]);
                        return Err(fail(&["C09", "C07"], "stream-drained-bytes", format!("drained encoder bytes diverge from the expected stream at offset {}", enc_off + d)));
                    }
                    enc_off += bytes.len();
                    if pipeline {
                        pending_for_decoder.extend_from_slice(bytes);
                    }
                    Ok(())
                };
                drain_all(&mut cons, rng, spec.policy != DrainPolicy::AllEveryCall, &mut sink)?;
            }
            if spec.pipeline && !pending_for_decoder.is_empty() {
                if spec.method_mix >= 4 && calls % 2 == 0 && pending_for_decoder.len() <= (1 << 20) {
                    let a = feeder
                        .read_n(&pending_for_decoder[..], pending_for_decoder.len(), MAX_ATTEMPTS)
                        .map_err(|e| fail(&["C17"], "read_n-err", e.to_string()))?;
                    dec.decode_anchored(a)
                        .map_err(|e| fail(&["C01", "C07"], "stream-decode-reject", format!("decoder rejected the drained stream: {}", e)))?;
                    foreign_anchored += 1;
                } else {
                    dec.decode_copy(&pending_for_decoder)
                        .map_err(|e| fail(&["C01", "C07"], "stream-decode-reject", format!("decoder rejected the drained stream: {}", e)))?;
                }
                pending_for_decoder.clear();
                let mut dcons = dec.consumer();
                let dtotal = dcons.total_size();
                let dstable: usize = dcons.stable_prefix().iter().map(|s| s.len()).sum();
                if dtotal != dstable {
                    return Err(fail(&["C09"], "decoder-lag", format!("decoder lag {}", dtotal - dstable)));
                }
                let mut dsink = |bytes: &[u8]| -> Result<(), Fail> {
                    if dec_off + bytes.len() > input.len() || &input[dec_off..dec_off + bytes.len()] != bytes {
                        return Err(fail(&["C01", "C09"], "stream-decoded-bytes", format!("drained decoder bytes diverge from the input near offset {}", dec_off)));
                    }
                    dec_off += bytes.len();
                    Ok(())
                };
                drain_all(&mut dcons, rng, false, &mut dsink)?;
            }
            let live = ByteArena::num_live_bytes();
            max_live = max_live.max(live);
            if spec.policy == DrainPolicy::AllEveryCall && live > base_bytes + FOOTPRINT_BOUND {
                return Err(fail(&["C10"], "footprint", format!("live arena bytes {} > bound {} after streaming {} bytes while draining everything consumable", live - base_bytes, FOOTPRINT_BOUND, pos)));
            }
        }
        // finish
        let tail = enc.finish().flatten().map_err(|_| fail(&["C01", "C04"], "finish-pending", "finish left a backpatch pending".into()))?;
        if enc_off + tail.len() != expected.len() || expected[enc_off..] != tail[..] {
            return Err(fail(&["C09", "C07"], "stream-total", format!("drained ({}) ++ finish ({}) differs from the expected stream ({})", enc_off, tail.len(), expected.len())));
        }
        if spec.pipeline {
            dec.decode_copy(&tail).map_err(|e| fail(&["C01", "C07"], "stream-decode-reject", e.to_string()))?;
            let out = dec.finish().map_err(|e| fail(&["C01", "C07"], "stream-decode-finish", e.to_string()))?;
            let rest = out.flatten().map_err(|_| fail(&["C09"], "decoder-pending", "decoder output pending".into()))?;
            if dec_off + rest.len() != input.len() || input[dec_off..] != rest[..] {
                return Err(fail(&["C01", "C09"], "stream-decoded-total", "decoded stream differs from the input".into()));
            }
        }
    }
    let (c, b) = (ByteArena::num_live_chunks(), ByteArena::num_live_bytes());
    if c != base_chunks || b != base_bytes {
        return Err(fail(&["C10"], "leak-after-drop", format!("live arena chunks/bytes {}/{} after the stream, {}/{} before", c, b, base_chunks, base_bytes)));
    }
    ctx.ops += calls as u64;
    ctx.feature_n("stream.anchored_slices_read_through_a_foreign_arena", foreign_anchored);
    let _ = idx;
    Ok((max_lag, max_live - base_bytes.min(max_live), calls))
}

pub fn run_stream(ctx: &mut Ctx) {
    let thorough = ctx.args.thorough();
    let streams = ctx.args.get_u64("streams", if thorough { 64 } else { 32 });
    let mib = ctx.args.get_u64("mib", if thorough { 64 } else { 8 }) as usize;
    let big = ctx.args.get_u64("big-mib", if thorough { 256 } else { 16 }) as usize;
    let focus_c10 = ctx.args.get("focus") == Some("C10");
    for r in 0..streams {
        let idx = r;
        if !ctx.mine(idx) {
            continue;
        }
        let mut rng = Rng::for_case(ctx.args.seed, "codec-stream", r);
        let dist = *rng.pick(&[PieceDist::Bytes, PieceDist::Small, PieceDist::Medium, PieceDist::Large, PieceDist::Mixed, PieceDist::Medium, PieceDist::Large, PieceDist::Huge]);
        let style = match r % 4 {
            0 => gen::Style::NoFe,
            1 => gen::Style::AllStuff,
            2 => gen::Style::Uniform,
            _ => *rng.pick(&[gen::Style::Dense, gen::Style::Runs, gen::Style::StuffHeavy]),
        };
        let policy = if focus_c10 {
            DrainPolicy::AllEveryCall
        } else {
            *rng.pick(&[DrainPolicy::Never, DrainPolicy::AllEveryCall, DrainPolicy::AllEveryCall, DrainPolicy::Random])
        };
        // two lengths per configuration class so that "independent of length" is observed
        let mut len_mib = if r % 8 == 7 { big } else if r % 2 == 0 { mib } else { (mib / 4).max(1) };
        if dist == PieceDist::Bytes {
            len_mib = len_mib.min(2);
        } else if dist == PieceDist::Small {
            len_mib = len_mib.min(16);
        }
        if policy == DrainPolicy::Never {
            len_mib = len_mib.min(64);
        }
        let spec = StreamSpec {
            len: len_mib << 20,
            style,
            dist,
            policy,
            pipeline: rng.chance(1, 2),
            method_mix: if dist == PieceDist::Huge { rng.below(2) as u8 } else { rng.below(6) as u8 },
        };
        ctx.begin_case(idx, || stream_json(idx, &spec));
        let res = catch(|| run_one_stream(ctx, idx, &spec, &mut rng));
        match res {
            Err(panic) => ctx.violate(&["C09", "C01"], &format!("panic:{}", panic_sig(&panic)), format!("stream panicked: {}", panic), stream_json(idx, &spec)),
            Ok(Err(f)) => ctx.violate(&f.props, &f.sig, f.what, stream_json(idx, &spec)),
            Ok(Ok((lag, live, calls))) => {
                ctx.maximum(&format!("stream.max_encoder_lag.len_{}MiB", len_mib), lag as u64);
                ctx.maximum("stream.max_encoder_lag", lag as u64);
                if spec.policy == DrainPolicy::AllEveryCall {
                    ctx.maximum(&format!("stream.max_live_arena_bytes_when_draining.len_{}MiB", len_mib), live as u64);
                    ctx.maximum("stream.max_live_arena_bytes_when_draining", live as u64);
                    ctx.feature("stream.drained_every_call");
                }
                ctx.feature(&format!("stream.policy.{:?}", spec.policy));
                ctx.feature(&format!("stream.style.{:?}", spec.style));
                ctx.feature(&format!("stream.pieces.{:?}", spec.dist));
                if spec.pipeline {
                    ctx.feature("stream.pipeline");
                }
                ctx.feature_n("stream.bytes_streamed_MiB", len_mib as u64);
                ctx.signature(mix(&[80, len_mib as u64, spec.style as u64, spec.dist as u64, spec.policy as u64, spec.pipeline as u64, spec.method_mix as u64, (calls as u64).leading_zeros() as u64]));
                ctx.sample(3, || stream_json(idx, &spec).with("max_encoder_lag", Json::U(lag as u64)).with("max_live_arena_bytes", Json::U(live as u64)).with("feed_calls", Json::U(calls as u64)));
            }
        }
        ctx.end_case(idx);
        if ctx.too_many_violations() {
            return;
        }
    }
}


// ---------------------------------------------------------------------------
// Record streams through one StreamReader / one recycled Decoder (C10
// footprint while the consumer keeps up, record after record)

fn run_record_stream(ctx: &mut Ctx, idx: u64, total_mib: usize, rng: &mut Rng) -> Result<(usize, u64), Fail> {
    use hcobs::StreamReader;
    let base_chunks = ByteArena::num_live_chunks();
    let base_bytes = ByteArena::num_live_bytes();
    let target = total_mib << 20;
    let via_reader = rng.chance(2, 3);
    let block = *rng.pick(&[Some(4096usize), Some(65_536), Some(300), None]);
    let big_every = rng.range(20, 400);
    let mut max_live = 0usize;
    let mut records = 0u64;
    {
        // build the stream in pieces of ~4 MiB so that memory stays modest
        let mut sr = StreamReader::new();
        let mut recycled: Option<OwningIovec<'static>> = Some(OwningIovec::new());
        let mut produced = 0usize;
        while produced < target {
            let mut stream: Vec<u8> = Vec::with_capacity(5 << 20);
            let mut expected: Vec<Vec<u8>> = Vec::new();
            while stream.len() < (4 << 20) && produced + stream.len() < target {
                let len = if expected.len() % big_every == big_every - 1 { rng.range(60_000, 70_000) } else { rng.range(0, 3000) };
                let style = *rng.pick(&gen::STYLES);
                let payload = gen::payload(rng, len, style);
                stream.extend_from_slice(&hcobs_ref::encode(&payload, hcobs_ref::PROD_FIRST, hcobs_ref::PROD_LATER));
                stream.extend_from_slice(&[0xFE, 0xFD]);
                expected.push(payload);
            }
            produced += stream.len();
            if via_reader {
                let mut src: &[u8] = &stream;
                let judge = StreamReader::chunk_judge(usize::MAX, None);
                for want in &expected {
                    let got = sr
                        .next_record_bytes(&mut src, &judge, block)
                        .map_err(|e| fail(&["C06"], "reader-err", e.to_string()))?;
                    match got {
                        None => return Err(fail(&["C06"], "missing-record", format!("record #{} not returned", records))),
                        Some((iov, _)) => {
                            let mut off = 0;
                            for s in iov.stable_prefix() {
                                if off + s.len() > want.len() || s[..] != want[off..off + s.len()] {
                                    return Err(fail(&["C06"], "record-bytes", format!("record #{} differs", records)));
                                }
                                off += s.len();
                            }
                            if off != want.len() {
                                return Err(fail(&["C06"], "record-bytes", format!("record #{} has {} bytes, expected {}", records, off, want.len())));
                            }
                        }
                    }
                    records += 1;
                    let live = ByteArena::num_live_bytes() - base_bytes.min(ByteArena::num_live_bytes());
                    max_live = max_live.max(live);
                    if live > FOOTPRINT_BOUND {
                        return Err(fail(&["C10"], "footprint-reader", format!("live arena bytes {} > bound {} after {} records read through one StreamReader", live, FOOTPRINT_BOUND, records)));
                    }
                }
                // The chunk of stream just read ends on a delimiter; the
                // reader now sees end of input and must report end of stream.
                let end = sr.next_record_bytes(&mut src, &judge, block).map_err(|e| fail(&["C06"], "reader-err", e.to_string()))?;
                if end.is_some() {
                    return Err(fail(&["C06"], "extra-record", "a record was returned past the end of the stream".into()));
                }
            } else {
                // one Decoder per record on a recycled iovec: new_from_iovec, decode, finish, read, clear
                let mut pos = 0usize;
                for want in &expected {
                    let enc_len = hcobs_ref::encode(want, hcobs_ref::PROD_FIRST, hcobs_ref::PROD_LATER).len();
                    let rec = &stream[pos..pos + enc_len];
                    pos += enc_len + 2;
                    let iov = recycled.take().unwrap();
                    let mut dec = hcobs::Decoder::new_from_iovec(iov);
                    dec.decode_copy(rec).map_err(|e| fail(&["C07"], "decode-reject", e.to_string()))?;
                    let mut iov = dec.finish().map_err(|e| fail(&["C07"], "decode-reject", e.to_string()))?;
                    if iov.total_size() != want.len() {
                        return Err(fail(&["C01"], "roundtrip-bytes", format!("record #{} decodes to {} bytes, expected {}", records, iov.total_size(), want.len())));
                    }
                    // consume a little before clearing, like a real consumer would
                    let _ = iov.consumer().advance_slices(want.len() / 2);
                    iov.clear();
                    recycled = Some(iov);
                    records += 1;
                    let live = ByteArena::num_live_bytes() - base_bytes.min(ByteArena::num_live_bytes());
                    max_live = max_live.max(live);
                    if live > FOOTPRINT_BOUND {
                        return Err(fail(&["C10"], "footprint-recycled", format!("live arena bytes {} > bound {} after {} records through Decoders on one recycled iovec", live, FOOTPRINT_BOUND, records)));
                    }
                }
            }
        }
        drop(sr);
        drop(recycled);
    }
    let (c, b) = (ByteArena::num_live_chunks(), ByteArena::num_live_bytes());
    if c != base_chunks || b != base_bytes {
        return Err(fail(&["C10"], "leak-after-drop", format!("live arena chunks/bytes {}/{} after the record stream, {}/{} before", c, b, base_chunks, base_bytes)));
    }
    ctx.ops += records;
    ctx.feature(if via_reader { "stream.records_through_one_stream_reader" } else { "stream.records_through_recycled_decoder" });
    let _ = idx;
    Ok((max_live, records))
}

pub fn run_record_streams(ctx: &mut Ctx) {
    let thorough = ctx.args.thorough();
    let streams = ctx.args.get_u64("streams", if thorough { 64 } else { 32 });
    let mib = ctx.args.get_u64("mib", if thorough { 128 } else { 24 }) as usize;
    for r in 0..streams {
        let idx = r;
        if !ctx.mine(idx) {
            continue;
        }
        let mut rng = Rng::for_case(ctx.args.seed, "record-stream", r);
        let len_mib = if r % 2 == 0 { mib } else { (mib / 4).max(1) };
        let case = || Json::obj().with("kind", Json::s("record-stream")).with("index", Json::U(idx)).with("stream_len_MiB", Json::U(len_mib as u64));
        ctx.begin_case(idx, case);
        let res = catch(|| run_record_stream(ctx, idx, len_mib, &mut rng));
        match res {
            Err(p) => ctx.violate(&["C10", "C06"], &format!("panic:{}", panic_sig(&p)), format!("record stream panicked: {}", p), case()),
            Ok(Err(f)) => ctx.violate(&f.props, &f.sig, f.what, case()),
            Ok(Ok((live, records))) => {
                ctx.maximum(&format!("stream.records.max_live_arena_bytes.len_{}MiB", len_mib), live as u64);
                ctx.maximum("stream.records.max_live_arena_bytes", live as u64);
                ctx.feature_n("stream.records_read", records);
                ctx.signature(mix(&[81, len_mib as u64, r]));
                ctx.sample(2, || case().with("records", Json::U(records)).with("max_live_arena_bytes", Json::U(live as u64)));
            }
        }
        ctx.end_case(idx);
        if ctx.too_many_violations() {
            return;
        }
    }
}
