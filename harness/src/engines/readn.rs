//! Engine `readn` (C17): ByteArena::read_n and the Encoder / Decoder read
//! wrappers behind fault-script readers, compared with a small sequential
//! model of the documented retry rule.  Fault enumeration: every script over
//! a 7-symbol alphabet up to a bounded length x counts x attempt limits x
//! arena states, then random long scripts.

use std::io::ErrorKind;
use std::num::NonZeroUsize;

use hcobs::DecodingError;
use owning_iovec::ByteArena;

use crate::ctx::catch;
use crate::ctx::panic_sig;
use crate::ctx::Ctx;
use crate::expose;
use crate::expose::ExposeStats;
use crate::expose::Owned;
use crate::gen;
use crate::hcobs_ref;
use crate::json::Json;
use crate::prng::mix;
use crate::prng::Rng;
use crate::reader::Call;
use crate::reader::ScriptedReader;
use crate::reader::Step;
use crate::reader::Tail;

pub struct Fail {
    pub props: Vec<&'static str>,
    pub sig: String,
    pub what: String,
}

fn fail(sig: &str, what: String) -> Fail {
    Fail { props: vec!["C17"], sig: sig.to_string(), what }
}

const ALPHABET: [Step; 7] = [
    Step::Deliver(1),
    Step::Deliver(2),
    Step::Fill,
    Step::Interrupted,
    Step::Eof,
    Step::Fail(ErrorKind::Other),
    Step::Fail(ErrorKind::WouldBlock),
];

const COUNTS: [usize; 5] = [0, 1, 2, 3, 5];
const ATTEMPTS: [usize; 4] = [1, 2, 3, usize::MAX];

#[derive(Clone, Copy, Debug, PartialEq, Eq)]
enum ArenaState {
    Fresh,
    NearlyFull,
    AfterFlush,
}
const ARENA_STATES: [ArenaState; 3] = [ArenaState::Fresh, ArenaState::NearlyFull, ArenaState::AfterFlush];

#[derive(Debug, PartialEq, Eq)]
struct Expected {
    /// buffer length offered to each reader call
    offered: Vec<usize>,
    delivered: usize,
    /// Ok(delivered bytes) or Err(kind)
    err: Option<ErrorKind>,
}

/// Sequential model of the documented rule.
fn model(script: &[Step], count: usize, attempts: usize, data_len: usize) -> Expected {
    let mut offered = Vec::new();
    if count == 0 {
        return Expected { offered, delivered: 0, err: None };
    }
    let mut got = 0usize;
    let mut err: Option<ErrorKind> = None;
    let mut i = 0usize;
    while i < attempts {
        let step = script.get(i).copied().unwrap_or(Step::Eof);
        i += 1;
        offered.push(count - got);
        match step {
            Step::Deliver(_) | Step::Fill => {
                let k = match step {
                    Step::Deliver(k) => k,
                    _ => usize::MAX,
                };
                let n = k.min(count - got).min(data_len - got);
                if n == 0 {
                    err = None;
                    break;
                }
                got += n;
            }
            Step::Interrupted => err = Some(ErrorKind::Interrupted),
            Step::Eof => {
                err = None;
                break;
            }
            Step::Fail(kind) => {
                err = Some(kind);
                break;
            }
        }
        if got == count {
            break;
        }
    }
    if got == 0 && err.is_some() {
        Expected { offered, delivered: 0, err }
    } else {
        Expected { offered, delivered: got, err: None }
    }
}

fn prepare_arena(state: ArenaState, variant: usize) -> ByteArena {
    let mut arena = ByteArena::new();
    match state {
        ArenaState::Fresh => {}
        ArenaState::NearlyFull => {
            arena.ensure_capacity(4096);
            let fill = arena.remaining().saturating_sub(variant % 4);
            let junk = vec![0x77u8; fill];
            let _ = arena.read_n(&junk[..], fill, NonZeroUsize::MAX);
        }
        ArenaState::AfterFlush => {
            let junk = [0x78u8; 40];
            let _ = arena.read_n(&junk[..], 40, NonZeroUsize::MAX);
            arena.flush_cache();
        }
    }
    arena
}

fn check_calls(reader: &ScriptedReader<'_>, exp: &Expected, attempts: usize, count: usize) -> Result<(), Fail> {
    if reader.calls.len() > attempts {
        return Err(fail("too-many-calls", format!("reader called {} times with max_attempts {}", reader.calls.len(), attempts)));
    }
    let total_delivered: usize = reader
        .calls
        .iter()
        .map(|(_, c)| if let Call::Delivered(n) = c { *n } else { 0 })
        .sum();
    if total_delivered > count {
        return Err(fail("over-read", format!("reader delivered {} bytes for count {}", total_delivered, count)));
    }
    let offered: Vec<usize> = reader.calls.iter().map(|(o, _)| *o).collect();
    if offered != exp.offered {
        return Err(fail("call-sizes", format!("reader was offered buffers of {:?}, the documented rule gives {:?}", offered, exp.offered)));
    }
    Ok(())
}

fn check_result(res: &std::io::Result<Vec<u8>>, exp: &Expected, data: &[u8]) -> Result<(), Fail> {
    match (res, exp.err) {
        (Ok(bytes), None) => {
            if bytes[..] != data[..exp.delivered] {
                return Err(fail("bytes", format!("returned {} bytes {:?}, the reader delivered {:?}", bytes.len(), &bytes[..bytes.len().min(16)], &data[..exp.delivered.min(16)])));
            }
            Ok(())
        }
        (Err(e), Some(kind)) => {
            if e.kind() != kind {
                return Err(fail("error-kind", format!("failed with {:?}, the last error was {:?}", e.kind(), kind)));
            }
            Ok(())
        }
        (Ok(bytes), Some(kind)) => Err(fail("ok-instead-of-err", format!("returned Ok({} bytes) but nothing was delivered and the last error was {:?}", bytes.len(), kind))),
        (Err(e), None) => Err(fail("err-instead-of-ok", format!("failed with {:?} although {} byte(s) were delivered or EOF came first", e.kind(), exp.delivered))),
    }
}

#[derive(Default)]
struct Obs {
    calls: u64,
    ok_short: u64,
    ok_full: u64,
    ok_empty_eof: u64,
    err: u64,
    eintr_retried: u64,
    attempts_exhausted: u64,
    expose: ExposeStats,
    drained_before_read: u64,
    arena_moved_on_after_read: u64,
}

fn classify(obs: &mut Obs, exp: &Expected, count: usize, attempts: usize, script: &[Step]) {
    obs.calls += exp.offered.len() as u64;
    if exp.err.is_some() {
        obs.err += 1;
    } else if exp.delivered == count {
        obs.ok_full += 1;
    } else if exp.delivered == 0 {
        obs.ok_empty_eof += 1;
    } else {
        obs.ok_short += 1;
    }
    if script.iter().take(exp.offered.len()).any(|s| *s == Step::Interrupted) && exp.offered.len() > 1 {
        obs.eintr_retried += 1;
    }
    if exp.offered.len() == attempts && exp.delivered < count && count > 0 {
        obs.attempts_exhausted += 1;
    }
}

/// Target 0: ByteArena::read_n directly.
fn run_arena(script: &[Step], count: usize, attempts: usize, state: ArenaState, data: &[u8], obs: &mut Obs) -> Result<(), Fail> {
    let base = (ByteArena::num_live_chunks(), ByteArena::num_live_bytes());
    let owned = Owned::new();
    {
        let mut arena = prepare_arena(state, count);
        let exp = model(script, count, attempts, data.len());
        let mut reader = ScriptedReader::new(data, script.to_vec(), Tail::Eof);
        let res = arena.read_n(&mut reader, count, NonZeroUsize::new(attempts).unwrap());
        check_calls(&reader, &exp, attempts, count)?;
        let first = match res {
            Ok(a) => {
                expose::check_one(a.slice(), &owned, &mut obs.expose).map_err(|e| Fail { props: vec!["C05", "C17"], sig: "expose".into(), what: e })?;
                check_result(&Ok(a.slice().to_vec()), &exp, data)?;
                Some(a)
            }
            Err(e) => {
                check_result(&Err(e), &exp, data)?;
                None
            }
        };
        classify(obs, &exp, count, attempts, script);
        // A second read must not alias the first one's bytes (the unread
        // tail is handed back, the delivered prefix is not).
        let second_src = [0xA5u8; 9];
        let second = arena
            .read_n(&second_src[..], 7, NonZeroUsize::MAX)
            .map_err(|e| fail("second-read", format!("follow-up read failed: {}", e)))?;
        if second.slice() != &second_src[..7] {
            return Err(fail("second-read-bytes", "follow-up read returned wrong bytes".into()));
        }
        if let Some(a) = &first {
            if a.slice() != &data[..exp.delivered] {
                return Err(fail("first-clobbered", "the first read's bytes changed after a second read".into()));
            }
            let (p1, l1) = (a.slice().as_ptr() as usize, a.slice().len());
            let (p2, l2) = (second.slice().as_ptr() as usize, second.slice().len());
            if l1 > 0 && p1 < p2 + l2 && p2 < p1 + l1 {
                return Err(Fail { props: vec!["C17", "C05"], sig: "alias".into(), what: "the second read's slice overlaps the first read's slice".into() });
            }
        }
        // drop order: arena first, slices after
        drop(arena);
        if let Some(a) = &first {
            if a.slice() != &data[..exp.delivered] {
                return Err(Fail { props: vec!["C05"], sig: "first-after-arena-drop".into(), what: "AnchoredSlice changed after its arena was dropped".into() });
            }
        }
    }
    let now = (ByteArena::num_live_chunks(), ByteArena::num_live_bytes());
    if now != base {
        return Err(Fail { props: vec!["C10"], sig: "leak-after-drop".into(), what: format!("live arena chunks/bytes {:?} after the case, {:?} before", now, base) });
    }
    Ok(())
}

/// Targets 1/2: Encoder::encode_read and Encoder::read_n + encode_anchored.
/// `variant`: bit 0 = everything consumable is drained before the read;
/// bits 1..2 = what the arena does after the read, before the output is
/// looked at (0 nothing, 1 flush_cache, 2 ensure_capacity(70000), 3 flush +
/// an unrelated 5000-byte read_n).
#[allow(clippy::too_many_arguments)]
fn run_encoder(target: usize, script: &[Step], count: usize, attempts: usize, data: &[u8], prefix: &[u8], suffix: &[u8], variant: u64, obs: &mut Obs) -> Result<(), Fail> {
    let exp = model(script, count, attempts, data.len());
    let mut enc = hcobs::Encoder::new();
    enc.encode_copy(prefix);
    let mut drained: Vec<u8> = Vec::new();
    if variant & 1 == 1 {
        let mut c = enc.consumer();
        for s in c.stable_prefix() {
            drained.extend_from_slice(s);
        }
        let n = drained.len();
        if c.advance_slices(n) != n {
            return Err(fail("advance-ret", "advance_slices did not remove the stable bytes".into()));
        }
        obs.drained_before_read += 1;
    }
    let mut reader = ScriptedReader::new(data, script.to_vec(), Tail::Eof);
    let att = NonZeroUsize::new(attempts).unwrap();
    let res: std::io::Result<Vec<u8>> = if target == 1 {
        enc.encode_read(&mut reader, count, att).map(|n| data[..n.min(data.len())].to_vec())
    } else {
        match enc.read_n(&mut reader, count, att) {
            Ok(a) => {
                let v = a.slice().to_vec();
                enc.encode_anchored(a);
                Ok(v)
            }
            Err(e) => Err(e),
        }
    };
    check_calls(&reader, &exp, attempts, count)?;
    if let (Ok(v), true) = (&res, target == 1) {
        if v.len() != exp.delivered {
            return Err(fail("encode_read-count", format!("encode_read returned {}, {} bytes were delivered", v.len(), exp.delivered)));
        }
    }
    check_result(&res, &exp, data)?;
    classify(obs, &exp, count, attempts, script);
    poke_arena(enc.consumer().arena(), variant, obs);
    enc.encode_copy(suffix);
    let tail = enc.finish().flatten().map_err(|_| fail("finish-pending", "encoder output has a pending backpatch after a read".into()))?;
    let mut out = drained;
    out.extend_from_slice(&tail);
    let mut plain = prefix.to_vec();
    plain.extend_from_slice(&data[..exp.delivered]);
    plain.extend_from_slice(suffix);
    let want = hcobs_ref::encode(&plain, 252, 64008);
    if out != want {
        return Err(fail("encoder-output", format!("after a read that delivered {} byte(s) (result {}), the encoder's output is not the encoding of prefix ++ delivered ++ suffix", exp.delivered, if exp.err.is_some() { "Err" } else { "Ok" })));
    }
    Ok(())
}

/// Targets 3/4: Decoder::decode_read and Decoder::read_n + decode_anchored.
fn poke_arena(arena: &mut owning_iovec::ByteArena, variant: u64, obs: &mut Obs) {
    match (variant >> 1) & 3 {
        1 => arena.flush_cache(),
        2 => arena.ensure_capacity(70_000),
        3 => {
            arena.flush_cache();
            let junk = [0xC3u8; 5000];
            let _ = arena.read_n(&junk[..], 5000, NonZeroUsize::MAX);
        }
        _ => return,
    }
    obs.arena_moved_on_after_read += 1;
}

#[allow(clippy::too_many_arguments)]
fn run_decoder(target: usize, script: &[Step], count: usize, attempts: usize, plain: &[u8], split: usize, variant: u64, obs: &mut Obs) -> Result<(), Fail> {
    let encoded = hcobs_ref::encode(plain, 252, 64008);
    let split = split.min(encoded.len());
    let rest = &encoded[split..];
    let exp = model(script, count, attempts, rest.len());
    let mut dec = hcobs::Decoder::new();
    dec.decode_copy(&encoded[..split]).map_err(|e| fail("decode-prefix", e.to_string()))?;
    let mut drained: Vec<u8> = Vec::new();
    if variant & 1 == 1 {
        let mut c = dec.consumer();
        for s in c.stable_prefix() {
            drained.extend_from_slice(s);
        }
        let n = drained.len();
        if c.advance_slices(n) != n {
            return Err(fail("advance-ret", "advance_slices did not remove the stable bytes".into()));
        }
        obs.drained_before_read += 1;
    }
    let mut reader = ScriptedReader::new(rest, script.to_vec(), Tail::Eof);
    let att = NonZeroUsize::new(attempts).unwrap();
    let res: std::io::Result<Vec<u8>> = if target == 3 {
        match dec.decode_read(&mut reader, count, att) {
            Ok(n) => Ok(rest[..n.min(rest.len())].to_vec()),
            Err(e) => {
                if e.get_ref().map(|i| i.is::<DecodingError>()).unwrap_or(false) {
                    return Err(fail("decode_read-rejects-valid", format!("decode_read rejected a valid stream: {}", e)));
                }
                Err(e)
            }
        }
    } else {
        match dec.read_n(&mut reader, count, att) {
            Ok(a) => {
                let v = a.slice().to_vec();
                dec.decode_anchored(a).map_err(|e| fail("decode-rejects-valid", e.to_string()))?;
                Ok(v)
            }
            Err(e) => Err(e),
        }
    };
    check_calls(&reader, &exp, attempts, count)?;
    if let (Ok(v), true) = (&res, target == 3) {
        if v.len() != exp.delivered {
            return Err(fail("decode_read-count", format!("decode_read returned {}, {} bytes were delivered", v.len(), exp.delivered)));
        }
    }
    check_result(&res, &exp, rest)?;
    classify(obs, &exp, count, attempts, script);
    poke_arena(dec.consumer().arena(), variant, obs);
    dec.decode_copy(&rest[exp.delivered..]).map_err(|e| fail("decoder-state", format!("after a read that delivered {} byte(s), the decoder rejects the rest of a valid stream: {}", exp.delivered, e)))?;
    let tail = dec
        .finish()
        .map_err(|e| fail("decoder-state", format!("after a read that delivered {} byte(s), finish() rejects a valid stream: {}", exp.delivered, e)))?
        .flatten()
        .map_err(|_| fail("finish-pending", "decoder output pending".into()))?;
    let mut out = drained;
    out.extend_from_slice(&tail);
    if out != plain {
        return Err(fail("decoder-output", format!("after a read that delivered {} byte(s), the decoder's output is not the original message", exp.delivered)));
    }
    Ok(())
}

fn script_json(s: &[Step]) -> Json {
    Json::Arr(s.iter().map(|x| Json::Str(format!("{:?}", x))).collect())
}

fn case_json(kind: &str, idx: u64, target: usize, script: &[Step], count: usize, attempts: usize, state: Option<ArenaState>) -> Json {
    let names = ["ByteArena::read_n", "Encoder::encode_read", "Encoder::read_n+encode_anchored", "Decoder::decode_read", "Decoder::read_n+decode_anchored"];
    Json::obj()
        .with("kind", Json::s(kind))
        .with("index", Json::U(idx))
        .with("target", Json::s(names[target]))
        .with("script", script_json(&script[..script.len().min(40)]))
        .with("script_len", Json::U(script.len() as u64))
        .with("count", Json::U(count as u64))
        .with("max_attempts", if attempts == usize::MAX { Json::s("MAX") } else { Json::U(attempts as u64) })
        .with("arena_state", Json::Str(format!("{:?}", state)))
}

fn decode_script(mut code: u64, len: usize) -> Vec<Step> {
    let mut v = Vec::with_capacity(len);
    for _ in 0..len {
        v.push(ALPHABET[(code % 7) as usize]);
        code /= 7;
    }
    v
}

fn record(ctx: &mut Ctx, obs: &Obs) {
    ctx.feature_n("readn.reader_calls_observed", obs.calls);
    ctx.feature_n("readn.result.ok_full", obs.ok_full);
    ctx.feature_n("readn.result.ok_short", obs.ok_short);
    ctx.feature_n("readn.result.ok_empty_on_eof", obs.ok_empty_eof);
    ctx.feature_n("readn.result.err_nothing_delivered", obs.err);
    ctx.feature_n("readn.eintr_retried", obs.eintr_retried);
    ctx.feature_n("readn.attempt_limit_reached", obs.attempts_exhausted);
    ctx.feature_n("readn.exposed_slices_checked", obs.expose.slices_checked);
    ctx.feature_n("readn.wrapper.output_drained_before_the_read", obs.drained_before_read);
    ctx.feature_n("readn.wrapper.arena_moved_on_after_the_read", obs.arena_moved_on_after_read);
}

pub fn run(ctx: &mut Ctx) {
    if let Err(e) = hcobs_ref::self_test() {
        ctx.inconclusive(format!("reference codec self-test failed: {}", e));
        return;
    }
    let thorough = ctx.args.thorough();
    let miri = ctx.args.miri();
    let max_len = ctx.args.get_u64("script-len", if thorough { 7 } else { 5 }) as usize;
    let wrapper_len = ctx.args.get_u64("wrapper-script-len", if thorough { 5 } else { 4 }) as usize;
    let random_cases = ctx.args.cases.unwrap_or(if thorough { 2_000_000 } else { 100_000 });
    let do_sweep = ctx.args.get_u64("sweep", 1) == 1;
    let data: Vec<u8> = gen::pattern(777, 64);
    let mut index = 0u64;

    if do_sweep {
        // (1) ByteArena::read_n: full enumeration
        for len in 0..=max_len {
            let n = 7u64.pow(len as u32);
            for code in 0..n {
                let idx = index;
                index += 1;
                if !ctx.mine(idx) {
                    continue;
                }
                let script = decode_script(code, len);
                ctx.begin_case(idx, || case_json("sweep", idx, 0, &script, 0, 0, None));
                let mut obs = Obs::default();
                let mut ok = true;
                'cfg: for &count in &COUNTS {
                    for &attempts in &ATTEMPTS {
                        for &state in &ARENA_STATES {
                            ctx.cases += 1;
                            let res = catch(|| run_arena(&script, count, attempts, state, &data, &mut obs));
                            let f = match res {
                                Err(p) => Some(Fail { props: vec!["C17"], sig: format!("panic:{}", panic_sig(&p)), what: format!("read_n panicked: {}", p) }),
                                Ok(Err(f)) => Some(f),
                                Ok(Ok(())) => None,
                            };
                            if let Some(f) = f {
                                ctx.violate(&f.props, &f.sig, f.what, case_json("sweep", idx, 0, &script, count, attempts, Some(state)));
                                ok = false;
                                break 'cfg;
                            }
                        }
                    }
                }
                ctx.cases -= 1;
                ctx.ops += obs.calls;
                if ok {
                    record(ctx, &obs);
                    ctx.signature(mix(&[1, len as u64, code]));
                    if idx % 3001 == 0 {
                        ctx.sample(2, || case_json("sweep", idx, 0, &script, 3, 3, Some(ArenaState::Fresh)));
                    }
                }
                ctx.end_case(idx);
                if ctx.too_many_violations() {
                    return;
                }
            }
        }
        if ctx.args.only.is_none() {
            ctx.exhaustive.insert(
                format!("ByteArena::read_n: all reader scripts over {{Deliver1, Deliver2, Fill, Interrupted, Eof, Fail(Other), Fail(WouldBlock)}} up to length {} x counts {:?} x attempts {{1,2,3,MAX}} x arena {{fresh, nearly full, after flush}}", max_len, COUNTS),
                1,
            );
        }
        // (2) codec wrappers
        for target in 1..=4usize {
            for len in 0..=wrapper_len {
                let n = 7u64.pow(len as u32);
                for code in 0..n {
                    let idx = index;
                    index += 1;
                    if !ctx.mine(idx) {
                        continue;
                    }
                    let script = decode_script(code, len);
                    ctx.begin_case(idx, || case_json("sweep", idx, target, &script, 0, 0, None));
                    let mut obs = Obs::default();
                    let mut ok = true;
                    'cfg2: for &count in &COUNTS {
                        for &attempts in &ATTEMPTS {
                            ctx.cases += 1;
                            let res = catch(|| {
                                if target <= 2 {
                                    // data contains FE FD so that chunk boundaries depend on what was read
                                    let d: &[u8] = &[0x31, 0xFE, 0xFD, 0x32, 0xFE, 0x33, 0x34, 0x35];
                                    run_encoder(target, &script, count, attempts, d, b"ab\xFE", b"\xFDcd", code / 3 + count as u64, &mut obs)
                                } else {
                                    let plain: &[u8] = b"0123\xFE\xFD456789\xFE\xFDab";
                                    run_decoder(target, &script, count, attempts, plain, (code % 5) as usize, code / 3 + count as u64, &mut obs)
                                }
                            });
                            let f = match res {
                                Err(p) => Some(Fail { props: vec!["C17"], sig: format!("panic:{}", panic_sig(&p)), what: format!("read wrapper panicked: {}", p) }),
                                Ok(Err(f)) => Some(f),
                                Ok(Ok(())) => None,
                            };
                            if let Some(f) = f {
                                ctx.violate(&f.props, &f.sig, f.what, case_json("sweep", idx, target, &script, count, attempts, None));
                                ok = false;
                                break 'cfg2;
                            }
                        }
                    }
                    ctx.cases -= 1;
                    ctx.ops += obs.calls;
                    if ok {
                        record(ctx, &obs);
                        ctx.feature(&format!("readn.target.{}", target));
                        ctx.signature(mix(&[2, target as u64, len as u64, code]));
                    }
                    ctx.end_case(idx);
                    if ctx.too_many_violations() {
                        return;
                    }
                }
            }
        }
        if ctx.args.only.is_none() {
            ctx.exhaustive.insert(format!("Encoder::encode_read / read_n+encode_anchored, Decoder::decode_read / read_n+decode_anchored: all scripts up to length {} x counts x attempts", wrapper_len), 1);
        }
    }
    index = index.max(1 << 32);

    // (3) random long scripts, large counts
    let big: Vec<u8> = gen::payload(&mut Rng::new(ctx.args.seed ^ 0xabc), if miri { 400 } else { 150_000 }, gen::Style::Dense);
    for r in 0..random_cases {
        let idx = index;
        index += 1;
        if !ctx.mine(idx) {
            continue;
        }
        let mut rng = Rng::for_case(ctx.args.seed, "readn", r);
        let target = rng.usize_below(5);
        let count = match rng.below(6) {
            0 => rng.range(0, 8),
            1 => rng.range(1, 300),
            2 => rng.range(4000, 4200),
            3 => rng.range(1, if miri { 300 } else { 70_000 }),
            _ => rng.range(1, 2000),
        }
        .min(if miri { 300 } else { usize::MAX });
        let attempts = *rng.pick(&[1usize, 2, 3, 5, 17, usize::MAX]);
        let slen = rng.range(0, 30);
        let mut script = Vec::new();
        for _ in 0..slen {
            script.push(match rng.below(12) {
                0..=2 => Step::Interrupted,
                3..=5 => Step::Deliver(rng.range(1, 5)),
                6..=7 => Step::Deliver(rng.range(1, 5000)),
                8 => Step::Fill,
                9 => Step::Eof,
                10 => Step::Fail(*rng.pick(&[ErrorKind::Other, ErrorKind::WouldBlock, ErrorKind::BrokenPipe, ErrorKind::TimedOut])),
                _ => Step::Deliver(1),
            });
        }
        let off = rng.usize_below(big.len() / 2);
        let data_len = if rng.chance(1, 4) { rng.range(0, count + 2) } else { big.len() - off };
        let d = &big[off..off + data_len.min(big.len() - off)];
        let state = *rng.pick(&ARENA_STATES);
        ctx.begin_case(idx, || case_json("random", idx, target, &script, count, attempts, Some(state)));
        let mut obs = Obs::default();
        let res = catch(|| match target {
            0 => run_arena(&script, count, attempts, state, d, &mut obs),
            1 | 2 => {
                let plen = rng.range(0, 300);
                let prefix = gen::payload(&mut rng, plen, gen::Style::Dense);
                let suffix = gen::payload(&mut rng, plen / 2, gen::Style::StuffHeavy);
                run_encoder(target, &script, count, attempts, d, &prefix, &suffix, rng.next_u64(), &mut obs)
            }
            _ => {
                let plain = &d[..d.len().min(if miri { 300 } else { 70_000 })];
                let split = rng.usize_below(plain.len() + 2);
                run_decoder(target, &script, count, attempts, plain, split, rng.next_u64(), &mut obs)
            }
        });
        ctx.ops += obs.calls;
        match res {
            Err(p) => ctx.violate(&["C17"], &format!("panic:{}", panic_sig(&p)), format!("read panicked: {}", p), case_json("random", idx, target, &script, count, attempts, Some(state))),
            Ok(Err(f)) => ctx.violate(&f.props, &f.sig, f.what, case_json("random", idx, target, &script, count, attempts, Some(state))),
            Ok(Ok(())) => {
                record(ctx, &obs);
                ctx.feature(&format!("readn.target.{}", target));
                ctx.signature(mix(&[3, target as u64, obs.ok_full, obs.ok_short, obs.ok_empty_eof, obs.err, obs.eintr_retried, obs.attempts_exhausted, (count as u64).leading_zeros() as u64, slen as u64 / 4]));
                ctx.sample(3, || case_json("random", idx, target, &script, count, attempts, Some(state)));
            }
        }
        ctx.end_case(idx);
        if ctx.too_many_violations() {
            return;
        }
    }
}
