//! Engine `deque`: SlidingDeque vs VecDeque (C15), SortedDeque vs BTreeMap (C16).
//!
//! Both are checked after *every* operation of exhaustive bounded sweeps and
//! of long random histories, on Vec and SmallVec backings.

use std::collections::BTreeMap;
use std::collections::VecDeque;
use std::num::NonZeroU8;

use sliding_deque::traits::PushTruncateContainer;
use sliding_deque::traits::SortedDequeItem;
use sliding_deque::traits::SortedDequeMarker;
use sliding_deque::SlidingDeque;
use sliding_deque::SortedDeque;
use smallvec::SmallVec;

use crate::ctx::catch;
use crate::ctx::panic_sig;
use crate::ctx::Ctx;
use crate::json::Json;
use crate::prng::mix;
use crate::prng::Rng;

// ---------------------------------------------------------------------------
// C15

#[derive(Clone, Copy, Debug, PartialEq, Eq)]
pub enum DOp {
    Push,
    PopFront,
    PopBack,
    Advance(usize),
    Clear,
    Slide,
    WriteFront,
    WriteBack,
    WriteAt(usize),
    /// spare = deque.clone()
    CloneToSpare,
    /// spare.clone_from(&deque) (the spare keeps whatever state it had)
    CloneFromIntoSpare,
    /// the spare becomes the deque under test and vice versa
    SwapWithSpare,
    /// deque = SlidingDeque::from(container holding the same items)
    FromContainer,
}

const SWEEP_ALPHABET: [DOp; 10] = [
    DOp::Push,
    DOp::PopFront,
    DOp::PopBack,
    DOp::Advance(1),
    DOp::Advance(2),
    DOp::Advance(usize::MAX),
    DOp::Clear,
    DOp::Slide,
    DOp::WriteBack,
    DOp::WriteAt(1),
];

fn dop_json(op: &DOp) -> Json {
    Json::Str(match op {
        DOp::Advance(n) if *n == usize::MAX => "Advance(MAX)".to_string(),
        other => format!("{:?}", other),
    })
}

struct DequeRun {
    spare_ops: u64,
    slides: u64,
    nonzero_prefix: u64,
    max_len: usize,
    heap_transition: bool,
}

/// Runs `ops` against a fresh SlidingDeque<C> and a VecDeque; returns
/// Err((props, sig, what)) on the first disagreement.
fn run_deque_case<C>(
    ops: &[DOp],
    inline_cap: usize,
    run: &mut DequeRun,
) -> Result<(), (Vec<&'static str>, String, String)>
where
    C: PushTruncateContainer<Item = u32> + Clone + Default + std::iter::FromIterator<u32>,
{
    let mut real: SlidingDeque<C> = SlidingDeque::new();
    let mut model: VecDeque<u32> = VecDeque::new();
    let mut spare: SlidingDeque<C> = SlidingDeque::new();
    let mut spare_model: VecDeque<u32> = VecDeque::new();
    let mut next = 1u32;

    for (step, op) in ops.iter().enumerate() {
        let before_prefix = real.verif_waste().0;
        let res = catch(|| -> Result<(), String> {
            match *op {
                DOp::Push => {
                    real.push_back(next);
                    model.push_back(next);
                }
                DOp::PopFront => {
                    let a = real.pop_front();
                    let b = model.pop_front();
                    if a != b {
                        return Err(format!("pop_front returned {:?}, model {:?}", a, b));
                    }
                }
                DOp::PopBack => {
                    let a = real.pop_back();
                    let b = model.pop_back();
                    if a != b {
                        return Err(format!("pop_back returned {:?}, model {:?}", a, b));
                    }
                }
                DOp::Advance(n) => {
                    let a = real.advance(n);
                    let b = n.min(model.len());
                    model.drain(..b);
                    if a != b {
                        return Err(format!("advance({}) returned {}, model {}", n, a, b));
                    }
                }
                DOp::Clear => {
                    real.clear();
                    model.clear();
                }
                DOp::Slide => {
                    real.slide();
                }
                DOp::WriteFront => {
                    let a = real.front_mut().map(|x| {
                        *x = x.wrapping_add(1000);
                    });
                    let b = model.front_mut().map(|x| {
                        *x = x.wrapping_add(1000);
                    });
                    if a != b {
                        return Err("front_mut presence differs".into());
                    }
                }
                DOp::WriteBack => {
                    let a = real.back_mut().map(|x| {
                        *x = x.wrapping_add(2000);
                    });
                    let b = model.back_mut().map(|x| {
                        *x = x.wrapping_add(2000);
                    });
                    if a != b {
                        return Err("back_mut presence differs".into());
                    }
                }
                DOp::CloneToSpare => {
                    spare = real.clone();
                    spare_model = model.clone();
                    run.spare_ops += 1;
                }
                DOp::CloneFromIntoSpare => {
                    spare.clone_from(&real);
                    spare_model = model.clone();
                    run.spare_ops += 1;
                }
                DOp::SwapWithSpare => {
                    std::mem::swap(&mut real, &mut spare);
                    std::mem::swap(&mut model, &mut spare_model);
                    run.spare_ops += 1;
                }
                DOp::FromContainer => {
                    real = SlidingDeque::from(model.iter().copied().collect::<C>());
                    run.spare_ops += 1;
                }
                DOp::WriteAt(i) => {
                    let len = real.len();
                    if len != model.len() {
                        return Err(format!("len {} model {}", len, model.len()));
                    }
                    if len > 0 {
                        let i = i % len;
                        let slice: &mut [u32] = &mut real;
                        slice[i] = slice[i].wrapping_add(3000);
                        model[i] = model[i].wrapping_add(3000);
                    }
                }
            }
            Ok(())
        });
        next += 1;

        match res {
            Err(panic) => {
                return Err((
                    vec!["C15"],
                    format!("panic:{}", panic_sig(&panic)),
                    format!("step {} {:?} panicked: {}", step, op, panic),
                ));
            }
            Ok(Err(what)) => {
                return Err((vec!["C15"], "retval".into(), format!("step {} {:?}: {}", step, op, what)));
            }
            Ok(Ok(())) => {}
        }

        // Observations after every operation.
        let obs = catch(|| -> Result<(usize, usize), String> {
            let view: &[u32] = &real;
            let (a, b) = model.as_slices();
            if view.len() != a.len() + b.len() || &view[..a.len()] != a || &view[a.len()..] != b {
                return Err(format!("slice view {:?} != model {:?}", view, model));
            }
            if real.len() != model.len() {
                return Err(format!("len {} != model {}", real.len(), model.len()));
            }
            if real.is_empty() != model.is_empty() {
                return Err("is_empty differs".into());
            }
            if real.front() != model.front() {
                return Err(format!("front {:?} != {:?}", real.front(), model.front()));
            }
            if real.back() != model.back() {
                return Err(format!("back {:?} != {:?}", real.back(), model.back()));
            }
            // the spare (a clone taken earlier) is not disturbed by operations on the other one
            let sview: &[u32] = &spare;
            if !sview.iter().eq(spare_model.iter()) || spare.front() != spare_model.front() || spare.back() != spare_model.back() {
                return Err(format!("spare deque (a clone) holds {:?}, its model {:?}", sview, spare_model));
            }
            let (sp, sc) = spare.verif_waste();
            if sp > sc / 2 || sc != sp + spare_model.len() {
                return Err(format!("spare deque (a clone): consumed prefix {} of container length {} with {} live items", sp, sc, spare_model.len()));
            }
            Ok(real.verif_waste())
        });
        let (prefix, clen) = match obs {
            Err(panic) => {
                return Err((
                    vec!["C15"],
                    format!("panic:{}", panic_sig(&panic)),
                    format!("after step {} {:?}: accessor panicked: {}", step, op, panic),
                ));
            }
            Ok(Err(what)) => {
                return Err((vec!["C15"], "view".into(), format!("after step {} {:?}: {}", step, op, what)));
            }
            Ok(Ok(w)) => w,
        };
        if prefix > clen / 2 {
            return Err((
                vec!["C15"],
                "waste".into(),
                format!(
                    "after step {} {:?}: consumed prefix {} > half of container length {}",
                    step, op, prefix, clen
                ),
            ));
        }
        if clen != prefix + model.len() {
            return Err((
                vec!["C15"],
                "waste-accounting".into(),
                format!(
                    "after step {} {:?}: container len {} != prefix {} + live {}",
                    step, op, clen, prefix, model.len()
                ),
            ));
        }
        if before_prefix > 0 && prefix == 0 && !model.is_empty() {
            run.slides += 1;
        }
        if prefix > 0 {
            run.nonzero_prefix += 1;
        }
        if clen > run.max_len {
            run.max_len = clen;
        }
        if inline_cap > 0 && clen > inline_cap {
            run.heap_transition = true;
        }
    }
    Ok(())
}

fn run_deque_backing(
    backing: usize,
    ops: &[DOp],
    run: &mut DequeRun,
) -> Result<(), (Vec<&'static str>, String, String)> {
    match backing {
        0 => run_deque_case::<Vec<u32>>(ops, 0, run),
        1 => run_deque_case::<SmallVec<[u32; 1]>>(ops, 1, run),
        2 => run_deque_case::<SmallVec<[u32; 2]>>(ops, 2, run),
        3 => run_deque_case::<SmallVec<[u32; 4]>>(ops, 4, run),
        _ => run_deque_case::<SmallVec<[u32; 8]>>(ops, 8, run),
    }
}

const BACKINGS: [&str; 5] = ["Vec", "SmallVec1", "SmallVec2", "SmallVec4", "SmallVec8"];

fn deque_case_json(kind: &str, backing: usize, index: u64, ops: &[DOp]) -> Json {
    Json::obj()
        .with("kind", Json::s(kind))
        .with("backing", Json::s(BACKINGS[backing]))
        .with("index", Json::U(index))
        .with("ops", Json::Arr(ops.iter().map(dop_json).collect()))
}

fn gen_random_deque_ops(rng: &mut Rng, n: usize) -> Vec<DOp> {
    // Phases with different push/pop balance so that the deque grows, drains
    // and hovers around the slide threshold.
    let mut ops = Vec::with_capacity(n);
    let mut len_est: usize = 0;
    let mut phase_left = 0usize;
    let mut weights = [40u32, 20, 10, 8, 4, 2, 1, 3, 4, 4, 4, 1, 1, 1, 1];
    while ops.len() < n {
        if phase_left == 0 {
            phase_left = rng.range(5, 80);
            let grow = rng.below(3);
            weights = match grow {
                0 => [50, 10, 5, 5, 3, 1, 1, 3, 4, 4, 4, 1, 1, 1, 1],
                1 => [20, 30, 15, 10, 6, 2, 1, 3, 4, 4, 4, 1, 2, 2, 1],
                _ => [30, 20, 20, 5, 5, 3, 2, 5, 4, 4, 4, 2, 2, 2, 1],
            };
        }
        phase_left -= 1;
        let op = match rng.weighted(&weights) {
            0 => DOp::Push,
            1 => DOp::PopFront,
            2 => DOp::PopBack,
            3 => DOp::Advance(rng.range(0, 3)),
            4 => DOp::Advance(match rng.below(4) {
                0 => len_est,
                1 => len_est + 1,
                2 => len_est / 2,
                _ => len_est.saturating_sub(1),
            }),
            5 => DOp::Advance(usize::MAX),
            6 => DOp::Clear,
            7 => DOp::Slide,
            8 => DOp::WriteFront,
            9 => DOp::WriteBack,
            10 => DOp::WriteAt(rng.usize_below(64)),
            11 => DOp::CloneToSpare,
            12 => DOp::CloneFromIntoSpare,
            13 => DOp::SwapWithSpare,
            _ => DOp::FromContainer,
        };
        match op {
            DOp::Push => len_est += 1,
            DOp::PopFront | DOp::PopBack => len_est = len_est.saturating_sub(1),
            DOp::Advance(k) => len_est = len_est.saturating_sub(k),
            DOp::Clear => len_est = 0,
            _ => {}
        }
        ops.push(op);
    }
    ops
}

pub fn run_c15(ctx: &mut Ctx) {
    let sweep_len = ctx.args.get_u64("sweep-len", if ctx.args.thorough() { 8 } else { 6 }) as u32;
    let random_cases = ctx.args.cases.unwrap_or(if ctx.args.thorough() { 400_000 } else { 20_000 });
    let random_ops = ctx.args.get_u64("ops", 600) as usize;
    let do_sweep = ctx.args.get_u64("sweep", 1) == 1;
    let base = SWEEP_ALPHABET.len() as u64;
    let total = base.pow(sweep_len);
    let mut index = 0u64;

    if do_sweep {
        for backing in 0..BACKINGS.len() {
            for i in 0..total {
                let idx = index;
                index += 1;
                if !ctx.mine(idx) {
                    continue;
                }
                let mut ops = Vec::with_capacity(sweep_len as usize);
                let mut x = i;
                for _ in 0..sweep_len {
                    ops.push(SWEEP_ALPHABET[(x % base) as usize]);
                    x /= base;
                }
                ctx.begin_case(idx, || deque_case_json("sweep", backing, idx, &ops));
                let mut run = DequeRun { spare_ops: 0, slides: 0, nonzero_prefix: 0, max_len: 0, heap_transition: false };
                let res = run_deque_backing(backing, &ops, &mut run);
                ctx.ops += ops.len() as u64;
                record_deque(ctx, "sweep", backing, idx, &ops, &run, res, i);
                ctx.end_case(idx);
                if ctx.too_many_violations() {
                    return;
                }
            }
        }
        if ctx.args.only.is_none() {
            ctx.exhaustive.insert(
                format!("C15 all op sequences of length {} over {} symbols x {} backings", sweep_len, base, BACKINGS.len()),
                total * BACKINGS.len() as u64,
            );
        }
    } else {
        index = total * BACKINGS.len() as u64;
    }

    for r in 0..random_cases {
        let idx = index;
        index += 1;
        if !ctx.mine(idx) {
            continue;
        }
        let mut rng = Rng::for_case(ctx.args.seed, "deque-c15", r);
        let backing = rng.usize_below(BACKINGS.len());
        let n = if ctx.args.miri() {
            40
        } else if rng.chance(1, 200) {
            // occasionally a long history (accumulated state, heap growth)
            rng.range(4000, 12000)
        } else {
            rng.range(random_ops / 4, random_ops)
        };
        let ops = gen_random_deque_ops(&mut rng, n);
        ctx.begin_case(idx, || deque_case_json("random", backing, idx, &ops));
        let mut run = DequeRun { spare_ops: 0, slides: 0, nonzero_prefix: 0, max_len: 0, heap_transition: false };
        let res = run_deque_backing(backing, &ops, &mut run);
        ctx.ops += ops.len() as u64;
        let ops = match &res {
            Err((_, sig, _)) if !ctx.args.miri() => {
                let sig = sig.clone();
                crate::ctx::shrink_vec(
                    &ops,
                    |cand| {
                        let mut r = DequeRun { spare_ops: 0, slides: 0, nonzero_prefix: 0, max_len: 0, heap_transition: false };
                        matches!(run_deque_backing(backing, cand, &mut r), Err((_, s, _)) if s == sig)
                    },
                    3000,
                )
            }
            _ => ops,
        };
        let res = match res {
            Err(_) => {
                let mut r = DequeRun { spare_ops: 0, slides: 0, nonzero_prefix: 0, max_len: 0, heap_transition: false };
                run_deque_backing(backing, &ops, &mut r)
            }
            ok => ok,
        };
        record_deque(ctx, "random", backing, idx, &ops, &run, res, u64::MAX);
        ctx.end_case(idx);
        if ctx.too_many_violations() {
            return;
        }
    }
}

fn bucket(v: u64) -> u64 {
    64 - v.leading_zeros() as u64
}

#[allow(clippy::too_many_arguments)]
fn record_deque(
    ctx: &mut Ctx,
    kind: &str,
    backing: usize,
    idx: u64,
    ops: &[DOp],
    run: &DequeRun,
    res: Result<(), (Vec<&'static str>, String, String)>,
    sweep_code: u64,
) {
    ctx.feature_n("c15.slides_observed", run.slides);
    ctx.feature_n("c15.clone_clone_from_swap_from_container_ops", run.spare_ops);
    ctx.feature_n("c15.steps_with_nonzero_prefix", run.nonzero_prefix);
    if run.heap_transition {
        ctx.feature("c15.smallvec_inline_to_heap");
    }
    ctx.maximum("c15.max_container_len", run.max_len as u64);
    if run.nonzero_prefix > 0 || run.slides > 0 {
        let sig = if sweep_code != u64::MAX {
            mix(&[1, backing as u64, sweep_code])
        } else {
            mix(&[
                2,
                backing as u64,
                bucket(run.slides),
                bucket(run.nonzero_prefix),
                bucket(run.max_len as u64),
                run.heap_transition as u64,
                ops.len() as u64 / 50,
            ])
        };
        ctx.signature(sig);
        if kind == "random" || (run.slides > 0 && idx % 9973 == 0) {
            ctx.sample(4, || deque_case_json(kind, backing, idx, &ops[..ops.len().min(40)]));
        }
    }
    if let Err((props, sig, what)) = res {
        ctx.violate(&props, &sig, what, deque_case_json(kind, backing, idx, ops));
    }
}

// ---------------------------------------------------------------------------
// C16

/// Item convention abstraction.
pub trait Conv: Copy + PartialEq + std::fmt::Debug {
    type Key: Copy + std::fmt::Debug;
    const NAME: &'static str;
    fn make(key: u32, val: u8) -> Self;
    fn erased(key: u32) -> Self;
    /// The lookup key that finds exactly this (present) item.
    fn lookup(&self) -> Self::Key;
    /// A lookup key for `key` that can never match a stored item's value.
    fn lookup_wrong_value(key: u32) -> Option<Self::Key>;
    /// A lookup key for an arbitrary numeric key, with the value the harness
    /// would have stored under it.
    fn lookup_key(key: u32) -> Self::Key;
    fn key(&self) -> u32;
}

fn val_for(key: u32) -> u8 {
    ((key * 7) % 200 + 1) as u8
}

type PairItem = (u32, Option<u8>);

impl Conv for PairItem {
    type Key = u32;
    const NAME: &'static str = "pair(key,Option<value>)";
    fn make(key: u32, val: u8) -> Self {
        (key, Some(val))
    }
    fn erased(key: u32) -> Self {
        (key, None)
    }
    fn lookup(&self) -> u32 {
        self.0
    }
    fn lookup_wrong_value(_key: u32) -> Option<u32> {
        None
    }
    fn lookup_key(key: u32) -> u32 {
        key
    }
    fn key(&self) -> u32 {
        self.0
    }
}

#[derive(Clone, Copy, Debug, PartialEq, Eq, PartialOrd, Ord)]
pub struct WholeItem {
    key: u32,
    value: Option<NonZeroU8>,
}

impl SortedDequeItem for WholeItem {
    fn mark_erased(&mut self) {
        self.value = None;
    }
    fn is_erased(&self) -> bool {
        self.value.is_none()
    }
}

impl Conv for WholeItem {
    type Key = WholeItem;
    const NAME: &'static str = "whole-item(Ord)";
    fn make(key: u32, val: u8) -> Self {
        WholeItem { key, value: NonZeroU8::new(val.max(1)) }
    }
    fn erased(key: u32) -> Self {
        WholeItem { key, value: None }
    }
    fn lookup(&self) -> WholeItem {
        *self
    }
    fn lookup_wrong_value(key: u32) -> Option<WholeItem> {
        Some(WholeItem { key, value: NonZeroU8::new(255) })
    }
    fn lookup_key(key: u32) -> WholeItem {
        WholeItem::make(key, val_for(key))
    }
    fn key(&self) -> u32 {
        self.key
    }
}

#[derive(Clone, Copy, Debug, PartialEq, Eq)]
pub enum SOp {
    PushNext,
    PushSkip,
    PushErased,
    /// push of a key that is not strictly greater: must panic and leave the deque as it was
    PushBad(u32),
    Remove(u32),
    PopFirst,
    PopLast,
    Clear,
}

const S_ALPHABET_BASE: [SOp; 6] = [
    SOp::PushNext,
    SOp::PushSkip,
    SOp::PushErased,
    SOp::PopFirst,
    SOp::PopLast,
    SOp::Clear,
];

fn s_alphabet(universe: u32) -> Vec<SOp> {
    let mut v = S_ALPHABET_BASE.to_vec();
    for k in 1..=universe {
        v.push(SOp::Remove(k));
    }
    v
}

#[derive(Default)]
struct SortedRun {
    mid_removals: u64,
    tombstone_cleanups: u64,
    pops: u64,
    found: u64,
    bad_push_panics: u64,
    max_live: usize,
    prefilled: u64,
    rejected_pushes: u64,
}

fn run_sorted_case<I, C>(
    ops: &[SOp],
    prefill: u32,
    run: &mut SortedRun,
) -> Result<(), (Vec<&'static str>, String, String)>
where
    I: Conv,
    C: PushTruncateContainer<Item = I> + Clone + Default + std::iter::FromIterator<I>,
    (): SortedDequeMarker<I, Key = I::Key> + Clone,
{
    // Either the Default deque, or one adopted from a container that already
    // holds `prefill` present items with increasing keys (SortedDeque::new).
    let mut model: BTreeMap<u32, I> = BTreeMap::new();
    let mut max_pushed = 0u32;
    let mut real: SortedDeque<C, ()> = if prefill == 0 {
        Default::default()
    } else {
        let mut items: Vec<I> = Vec::new();
        for j in 0..prefill {
            let key = max_pushed + 1 + (j % 2);
            let item = I::make(key, val_for(key));
            items.push(item);
            model.insert(key, item);
            max_pushed = key;
        }
        run.prefilled += 1;
        SortedDeque::new(items.into_iter().collect::<C>(), ())
    };
    // keys ever removed from the middle and not yet physically dropped is an
    // implementation detail; we only count mid removals as a feature.

    let fail = |step: usize, op: &SOp, sig: &str, what: String| {
        (vec!["C16"], sig.to_string(), format!("step {} {:?}: {}", step, op, what))
    };

    for (step, op) in ops.iter().enumerate() {
        let res = catch(|| -> Result<(), String> {
            match *op {
                SOp::PushNext | SOp::PushSkip => {
                    let key = max_pushed + if *op == SOp::PushNext { 1 } else { 2 };
                    let item = I::make(key, val_for(key));
                    real.push_back_or_panic(item);
                    model.insert(key, item);
                    max_pushed = key;
                }
                SOp::PushErased => {
                    // Must be a no-op whatever the key (even a smaller one).
                    let key = if step % 2 == 0 { max_pushed + 1 } else { max_pushed.saturating_sub(1) };
                    real.push_back_or_panic(I::erased(key));
                }
                SOp::PushBad(back) => {
                    if let Some((last_key, last_item)) = model.iter().next_back().map(|(k, v)| (*k, *v)) {
                        // the last item itself, or a smaller key (under whole-item
                        // ordering the same key with a larger value would be a valid push)
                        let key = last_key.saturating_sub(back % 3);
                        let item = if key == last_key { last_item } else { I::make(key, val_for(key)) };
                        let r = catch(|| real.push_back_or_panic(item));
                        if r.is_ok() {
                            return Err(format!("push_back_or_panic({:?}) after last key {} did not panic", item, last_key));
                        }
                        run.rejected_pushes += 1;
                    }
                }
                SOp::Remove(k) => {
                    let expected = model.remove(&k);
                    let is_mid = expected.is_some()
                        && model.keys().next().map(|f| *f < k).unwrap_or(false)
                        && model.keys().next_back().map(|l| *l > k).unwrap_or(false);
                    let got = real.remove(&I::lookup_key(k));
                    if got != expected {
                        return Err(format!("remove({}) returned {:?}, model {:?}", k, got, expected));
                    }
                    if is_mid {
                        run.mid_removals += 1;
                    }
                    if let Some(wrong) = I::lookup_wrong_value(k) {
                        let got = real.remove(&wrong);
                        if got.is_some() {
                            return Err(format!("remove(wrong-valued {}) returned {:?}", k, got));
                        }
                    }
                }
                SOp::PopFirst => {
                    let expected = model.pop_first().map(|(_, v)| v);
                    let got = real.pop_first();
                    if got != expected {
                        return Err(format!("pop_first returned {:?}, model {:?}", got, expected));
                    }
                    run.pops += 1;
                }
                SOp::PopLast => {
                    let expected = model.pop_last().map(|(_, v)| v);
                    let got = real.pop_last();
                    if got != expected {
                        return Err(format!("pop_last returned {:?}, model {:?}", got, expected));
                    }
                    run.pops += 1;
                }
                SOp::Clear => {
                    real.clear();
                    model.clear();
                }
            }
            Ok(())
        });
        match res {
            Err(panic) => {
                return Err(fail(step, op, &format!("panic:{}", panic_sig(&panic)), format!("panicked: {}", panic)));
            }
            Ok(Err(what)) => return Err(fail(step, op, "retval", what)),
            Ok(Ok(())) => {}
        }

        // Observations after every operation.
        let obs = catch(|| -> Result<u64, String> {
            let items: Vec<I> = real.iter().copied().collect();
            let expected: Vec<I> = model.values().copied().collect();
            run.max_live = run.max_live.max(expected.len());
            if items != expected {
                return Err(format!("iter() = {:?}, model {:?}", items, expected));
            }
            if real.first().copied() != expected.first().copied() {
                return Err(format!("first() = {:?}, model {:?}", real.first(), expected.first()));
            }
            if real.last().copied() != expected.last().copied() {
                return Err(format!("last() = {:?}, model {:?}", real.last(), expected.last()));
            }
            if real.is_empty() != model.is_empty() {
                return Err(format!("is_empty() = {}, model {}", real.is_empty(), model.is_empty()));
            }
            let mut found = 0;
            for k in 0..=(max_pushed + 2) {
                let got = real.find(&I::lookup_key(k)).copied();
                let want = model.get(&k).copied();
                if got != want {
                    return Err(format!("find({}) = {:?}, model {:?}", k, got, want));
                }
                if got.is_some() {
                    found += 1;
                }
                if let Some(wrong) = I::lookup_wrong_value(k) {
                    if let Some(x) = real.find(&wrong) {
                        return Err(format!("find(wrong-valued {}) = {:?}", k, x));
                    }
                }
            }
            Ok(found)
        });
        match obs {
            Err(panic) => {
                return Err(fail(step, op, &format!("panic:{}", panic_sig(&panic)), format!("accessor panicked: {}", panic)));
            }
            Ok(Err(what)) => return Err(fail(step, op, "view", what)),
            Ok(Ok(found)) => run.found += found,
        }
    }

    // Final probes on clones: a push that is not strictly greater than the
    // last present item must panic; a strictly greater one must not.
    if let Some((last_key, last_item)) = model.iter().next_back().map(|(k, v)| (*k, *v)) {
        let whole = I::lookup_wrong_value(0).is_some();
        let mut bad: Vec<I> = vec![last_item];
        if !whole {
            // Keys alone are compared: same key, other value is still not greater.
            bad.push(I::make(last_key, 1));
        }
        if last_key > 1 {
            bad.push(I::make(last_key - 1, val_for(last_key - 1)));
        }
        if let Some(first) = model.values().next() {
            bad.push(*first);
        }
        for b in bad {
            let mut c = real.clone();
            let r = catch(|| c.push_back_or_panic(b));
            if r.is_ok() {
                return Err((
                    vec!["C16"],
                    "bad-push-accepted".into(),
                    format!("push_back_or_panic({:?}) after last item {:?} did not panic", b, last_item),
                ));
            }
            run.bad_push_panics += 1;
        }
        let mut c = real.clone();
        let good = I::make(last_key + 1, val_for(last_key + 1));
        if let Err(p) = catch(|| c.push_back_or_panic(good)) {
            return Err((vec!["C16"], "good-push-panicked".into(), format!("push of larger key panicked: {}", p)));
        }
        if c.last().copied() != Some(good) {
            return Err((vec!["C16"], "good-push-lost".into(), "push of larger key not visible as last()".into()));
        }
    }
    let _ = run.tombstone_cleanups;
    Ok(())
}

const S_BACKINGS: [&str; 4] = ["pair/Vec", "pair/SmallVec4", "whole/Vec", "whole/SmallVec2"];

fn run_sorted_backing(
    backing: usize,
    ops: &[SOp],
    run: &mut SortedRun,
) -> Result<(), (Vec<&'static str>, String, String)> {
    run_sorted_backing_prefilled(backing, ops, 0, run)
}

fn run_sorted_backing_prefilled(
    backing: usize,
    ops: &[SOp],
    prefill: u32,
    run: &mut SortedRun,
) -> Result<(), (Vec<&'static str>, String, String)> {
    match backing {
        0 => run_sorted_case::<PairItem, Vec<PairItem>>(ops, prefill, run),
        1 => run_sorted_case::<PairItem, SmallVec<[PairItem; 4]>>(ops, prefill, run),
        2 => run_sorted_case::<WholeItem, Vec<WholeItem>>(ops, prefill, run),
        _ => run_sorted_case::<WholeItem, SmallVec<[WholeItem; 2]>>(ops, prefill, run),
    }
}

fn sorted_case_json(kind: &str, backing: usize, index: u64, ops: &[SOp]) -> Json {
    Json::obj()
        .with("kind", Json::s(kind))
        .with("backing", Json::s(S_BACKINGS[backing]))
        .with("index", Json::U(index))
        .with("ops", Json::Arr(ops.iter().map(|o| Json::Str(format!("{:?}", o))).collect()))
}

fn gen_random_sorted_ops(rng: &mut Rng, n: usize) -> Vec<SOp> {
    let mut ops = Vec::with_capacity(n);
    let mut max_pushed = 0u32;
    let mut low = 1u32;
    // Per-history profile: balanced (the population stays small), growing
    // (pushes dominate: many live items), or middle-heavy (a large population
    // riddled with removals anywhere in the live range, few pops).
    let profile = rng.below(4);
    let weights: [u32; 8] = match profile {
        0 | 1 => [30, 8, 4, 30, 10, 10, 1, 3],
        2 => [50, 10, 3, 25, 4, 4, 1, 2],
        _ => [40, 6, 2, 45, 2, 2, 1, 2],
    };
    for _ in 0..n {
        let op = match rng.weighted(&weights) {
            7 => SOp::PushBad(rng.below(3) as u32),
            0 => SOp::PushNext,
            1 => SOp::PushSkip,
            2 => SOp::PushErased,
            3 => {
                // remove near the front, the back, the middle, or absent
                let k = match if profile == 3 { 2 + rng.below(4) } else { rng.below(5) } {
                    0 => low,
                    1 => max_pushed,
                    2 => max_pushed.saturating_sub(rng.below(3) as u32),
                    3 => low + rng.below(4) as u32,
                    4 | 5 => {
                        if max_pushed >= low {
                            low + rng.below((max_pushed - low + 1) as u64) as u32
                        } else {
                            max_pushed + 1
                        }
                    }
                    _ => low,
                };
                SOp::Remove(k)
            }
            4 => SOp::PopFirst,
            5 => SOp::PopLast,
            _ => SOp::Clear,
        };
        match op {
            SOp::PushNext => max_pushed += 1,
            SOp::PushSkip => max_pushed += 2,
            SOp::PopFirst => low += 1,
            _ => {}
        }
        ops.push(op);
    }
    ops
}

pub fn run_c16(ctx: &mut Ctx) {
    let thorough = ctx.args.thorough();
    let sweep_len = ctx.args.get_u64("sweep-len", if thorough { 8 } else { 6 }) as u32;
    let universe = ctx.args.get_u64("universe", if thorough { 6 } else { 5 }) as u32;
    let random_cases = ctx.args.cases.unwrap_or(if thorough { 400_000 } else { 20_000 });
    let random_ops = ctx.args.get_u64("ops", 300) as usize;
    let do_sweep = ctx.args.get_u64("sweep", 1) == 1;
    let alphabet = s_alphabet(universe);
    let base = alphabet.len() as u64;
    let total = base.pow(sweep_len);
    let mut index = 0u64;

    if do_sweep {
        for backing in 0..S_BACKINGS.len() {
            for i in 0..total {
                let idx = index;
                index += 1;
                if !ctx.mine(idx) {
                    continue;
                }
                let mut ops = Vec::with_capacity(sweep_len as usize);
                let mut x = i;
                for _ in 0..sweep_len {
                    ops.push(alphabet[(x % base) as usize]);
                    x /= base;
                }
                ctx.begin_case(idx, || sorted_case_json("sweep", backing, idx, &ops));
                let mut run = SortedRun::default();
                let res = run_sorted_backing(backing, &ops, &mut run);
                ctx.ops += ops.len() as u64;
                record_sorted(ctx, "sweep", backing, idx, &ops, &run, res, i);
                ctx.end_case(idx);
                if ctx.too_many_violations() {
                    return;
                }
            }
        }
        if ctx.args.only.is_none() {
            ctx.exhaustive.insert(
                format!(
                    "C16 all op sequences of length {} over {} symbols (keys 1..{}) x {} item-convention/backing pairs",
                    sweep_len, base, universe, S_BACKINGS.len()
                ),
                total * S_BACKINGS.len() as u64,
            );
        }
    } else {
        index = total * S_BACKINGS.len() as u64;
    }

    for r in 0..random_cases {
        let idx = index;
        index += 1;
        if !ctx.mine(idx) {
            continue;
        }
        let mut rng = Rng::for_case(ctx.args.seed, "deque-c16", r);
        let backing = rng.usize_below(S_BACKINGS.len());
        let n = if ctx.args.miri() {
            30
        } else if rng.chance(1, 200) {
            rng.range(1500, 4000)
        } else {
            rng.range(random_ops / 4, random_ops)
        };
        let ops = gen_random_sorted_ops(&mut rng, n);
        // one history in four starts from SortedDeque::new(prefilled container)
        let prefill: u32 = if rng.chance(1, 4) { rng.range(1, 40) as u32 } else { 0 };
        ctx.begin_case(idx, || sorted_case_json("random", backing, idx, &ops).with("prefilled_items", Json::U(prefill as u64)));
        let mut run = SortedRun::default();
        let res = run_sorted_backing_prefilled(backing, &ops, prefill, &mut run);
        ctx.ops += ops.len() as u64;
        let ops = match &res {
            Err((_, sig, _)) if !ctx.args.miri() => {
                let sig = sig.clone();
                crate::ctx::shrink_vec(
                    &ops,
                    |cand| {
                        let mut r = SortedRun::default();
                        matches!(run_sorted_backing_prefilled(backing, cand, prefill, &mut r), Err((_, s, _)) if s == sig)
                    },
                    3000,
                )
            }
            _ => ops,
        };
        let res = match res {
            Err(_) => {
                let mut r = SortedRun::default();
                run_sorted_backing_prefilled(backing, &ops, prefill, &mut r)
            }
            ok => ok,
        };
        record_sorted(ctx, "random", backing, idx, &ops, &run, res, u64::MAX);
        ctx.end_case(idx);
        if ctx.too_many_violations() {
            return;
        }
    }
}

#[allow(clippy::too_many_arguments)]
fn record_sorted(
    ctx: &mut Ctx,
    kind: &str,
    backing: usize,
    idx: u64,
    ops: &[SOp],
    run: &SortedRun,
    res: Result<(), (Vec<&'static str>, String, String)>,
    sweep_code: u64,
) {
    ctx.feature_n("c16.middle_removals", run.mid_removals);
    ctx.feature_n("c16.pops", run.pops);
    ctx.feature_n("c16.successful_finds", run.found);
    ctx.feature_n("c16.bad_push_panics_observed", run.bad_push_panics);
    ctx.feature_n("c16.rejected_pushes_then_history_continues", run.rejected_pushes);
    ctx.feature_n("c16.histories_starting_from_SortedDeque_new_of_a_filled_container", run.prefilled);
    ctx.maximum("c16.max_live_items", run.max_live as u64);
    ctx.maximum("c16.max_middle_removals_in_one_history", run.mid_removals);
    if run.mid_removals >= 32 {
        ctx.feature("c16.histories_with_32_or_more_middle_removals");
    }
    if run.mid_removals > 0 || run.pops > 0 {
        let sig = if sweep_code != u64::MAX {
            mix(&[3, backing as u64, sweep_code])
        } else {
            mix(&[4, backing as u64, bucket(run.mid_removals), bucket(run.pops), bucket(run.found), ops.len() as u64 / 25])
        };
        ctx.signature(sig);
        if kind == "random" || (run.mid_removals > 0 && idx % 9973 == 0) {
            ctx.sample(4, || sorted_case_json(kind, backing, idx, &ops[..ops.len().min(40)]));
        }
    }
    if let Err((props, sig, what)) = res {
        ctx.violate(&props, &sig, what, sorted_case_json(kind, backing, idx, ops));
    }
}
