//! Shared run context: argument parsing, statistics, violation reporting,
//! panic capture, and the "current case" marker used to attribute sanitizer
//! aborts to a case.

use std::collections::BTreeMap;
use std::collections::HashSet;
use std::io::Write;

use crate::json::Json;

#[derive(Clone, Debug)]
pub struct Args {
    pub engine: String,
    pub seed: u64,
    pub shard: u64,
    pub nshards: u64,
    pub tier: String,
    pub only: Option<u64>,
    pub skip_to: u64,
    pub cases: Option<u64>,
    pub mark: Option<String>,
    pub kv: BTreeMap<String, String>,
}

impl Args {
    pub fn parse(argv: &[String]) -> Args {
        let mut a = Args {
            engine: argv.get(1).cloned().unwrap_or_default(),
            seed: 1,
            shard: 0,
            nshards: 1,
            tier: "quick".into(),
            only: None,
            skip_to: 0,
            cases: None,
            mark: None,
            kv: BTreeMap::new(),
        };
        let mut i = 2;
        while i < argv.len() {
            let k = argv[i].trim_start_matches("--").to_string();
            let v = argv.get(i + 1).cloned().unwrap_or_default();
            match k.as_str() {
                "seed" => a.seed = v.parse().expect("seed"),
                "shard" => a.shard = v.parse().expect("shard"),
                "nshards" => a.nshards = v.parse().expect("nshards"),
                "tier" => a.tier = v,
                "only" => a.only = Some(v.parse().expect("only")),
                "skip-to" => a.skip_to = v.parse().expect("skip-to"),
                "cases" => a.cases = Some(v.parse().expect("cases")),
                "mark" => a.mark = Some(v),
                _ => {
                    a.kv.insert(k, v);
                }
            }
            i += 2;
        }
        a
    }

    pub fn get(&self, k: &str) -> Option<&str> {
        self.kv.get(k).map(|s| s.as_str())
    }

    pub fn get_u64(&self, k: &str, default: u64) -> u64 {
        self.get(k).map(|v| v.parse().expect(k)).unwrap_or(default)
    }

    pub fn thorough(&self) -> bool {
        self.tier == "thorough"
    }

    pub fn miri(&self) -> bool {
        cfg!(miri)
    }
}

#[derive(Clone, Debug)]
pub struct Violation {
    pub props: Vec<&'static str>,
    pub what: String,
    pub sig: String,
    pub case: Json,
}

pub struct Ctx {
    pub args: Args,
    pub cases: u64,
    pub ops: u64,
    pub nontrivial: u64,
    pub features: BTreeMap<String, u64>,
    pub maxima: BTreeMap<String, u64>,
    pub sigs: HashSet<u64>,
    pub samples: Vec<Json>,
    pub violations: Vec<Violation>,
    pub inconclusive: Vec<String>,
    pub exhaustive: BTreeMap<String, u64>,
    pub notes: BTreeMap<String, Json>,
    mark_file: Option<std::fs::File>,
    focus_violations: usize,
    other_violations: usize,
    max_violations: usize,
    max_sigs: usize,
}

impl Ctx {
    pub fn new(args: Args) -> Ctx {
        let mark_file = args.mark.as_ref().map(|p| {
            std::fs::OpenOptions::new()
                .create(true)
                .append(true)
                .open(p)
                .expect("open mark file")
        });
        Ctx {
            args,
            cases: 0,
            ops: 0,
            nontrivial: 0,
            features: BTreeMap::new(),
            maxima: BTreeMap::new(),
            sigs: HashSet::new(),
            samples: Vec::new(),
            violations: Vec::new(),
            inconclusive: Vec::new(),
            exhaustive: BTreeMap::new(),
            notes: BTreeMap::new(),
            mark_file,
            focus_violations: 0,
            other_violations: 0,
            max_violations: 20,
            max_sigs: 150_000,
        }
    }

    /// True if case `index` belongs to this shard (and to the --only filter).
    #[inline]
    pub fn mine(&self, index: u64) -> bool {
        if let Some(only) = self.args.only {
            return index == only;
        }
        index >= self.args.skip_to && index % self.args.nshards == self.args.shard
    }

    /// Early stop: only violations of the property under check count (a
    /// run asked to decide Cxx must not be cut short by violations that are
    /// attributed to other properties only).
    pub fn too_many_violations(&self) -> bool {
        self.focus_violations >= self.max_violations
    }

    /// Marks the beginning of a case (used to attribute sanitizer aborts).
    #[inline]
    pub fn begin_case(&mut self, index: u64, describe: impl FnOnce() -> Json) {
        self.cases += 1;
        if let Some(f) = self.mark_file.as_mut() {
            let line = format!("BEGIN {} {}\n", index, describe().render());
            let _ = f.write_all(line.as_bytes());
        }
    }

    #[inline]
    pub fn end_case(&mut self, index: u64) {
        if let Some(f) = self.mark_file.as_mut() {
            let _ = f.write_all(format!("END {}\n", index).as_bytes());
        }
    }

    #[inline]
    pub fn feature(&mut self, name: &str) {
        self.feature_n(name, 1);
    }

    #[inline]
    pub fn feature_n(&mut self, name: &str, n: u64) {
        if n == 0 {
            return;
        }
        if let Some(v) = self.features.get_mut(name) {
            *v += n;
        } else {
            self.features.insert(name.to_string(), n);
        }
    }

    #[inline]
    pub fn maximum(&mut self, name: &str, v: u64) {
        if let Some(m) = self.maxima.get_mut(name) {
            if v > *m {
                *m = v;
            }
        } else {
            self.maxima.insert(name.to_string(), v);
        }
    }

    /// Records the feature signature of a case that exercised the property's
    /// mechanism ("non-trivial").
    #[inline]
    pub fn signature(&mut self, sig: u64) {
        self.nontrivial += 1;
        if self.sigs.len() < self.max_sigs {
            self.sigs.insert(sig);
        }
    }

    pub fn sample(&mut self, limit: usize, case: impl FnOnce() -> Json) {
        if self.samples.len() < limit {
            self.samples.push(case());
        }
    }

    pub fn violate(&mut self, props: &[&'static str], sig: &str, what: String, case: Json) {
        let is_focus = match self.args.get("prop") {
            Some(p) => props.contains(&p),
            None => true,
        };
        if is_focus {
            if self.focus_violations >= self.max_violations {
                return;
            }
            self.focus_violations += 1;
        } else {
            // keep (and print) a bounded number of foreign violations, but
            // never stop the run because of them
            if self.other_violations >= self.max_violations {
                return;
            }
            self.other_violations += 1;
        }
        let v = Violation {
            props: props.to_vec(),
            what,
            sig: sig.to_string(),
            case,
        };
        // Print right away so that the driver sees it even if we die later.
        println!("VIOL {}", violation_json(&v, &self.args).render());
        let _ = std::io::stdout().flush();
        self.violations.push(v);
    }

    pub fn inconclusive(&mut self, why: String) {
        println!(
            "INCONCLUSIVE {}",
            Json::Str(why.clone()).render()
        );
        self.inconclusive.push(why);
    }

    pub fn finish(&self) {
        let mut o = Json::obj();
        o.set("engine", Json::Str(self.args.engine.clone()));
        o.set("seed", Json::U(self.args.seed));
        o.set("shard", Json::U(self.args.shard));
        o.set("nshards", Json::U(self.args.nshards));
        o.set("tier", Json::Str(self.args.tier.clone()));
        o.set("flavour", Json::Str(flavour().into()));
        o.set("cases", Json::U(self.cases));
        o.set("ops", Json::U(self.ops));
        o.set("nontrivial", Json::U(self.nontrivial));
        let mut f = Json::obj();
        for (k, v) in &self.features {
            f.set(k, Json::U(*v));
        }
        o.set("features", f);
        let mut m = Json::obj();
        for (k, v) in &self.maxima {
            m.set(k, Json::U(*v));
        }
        o.set("maxima", m);
        let mut e = Json::obj();
        for (k, v) in &self.exhaustive {
            e.set(k, Json::U(*v));
        }
        o.set("exhaustive", e);
        let mut n = Json::obj();
        for (k, v) in &self.notes {
            n.set(k, v.clone());
        }
        o.set("notes", n);
        let mut sigs: Vec<u64> = self.sigs.iter().copied().collect();
        sigs.sort_unstable();
        o.set(
            "sigs",
            Json::Arr(sigs.iter().map(|s| Json::Str(format!("{:x}", s))).collect()),
        );
        o.set("samples", Json::Arr(self.samples.clone()));
        o.set("violations", Json::U(self.violations.len() as u64));
        o.set(
            "inconclusive",
            Json::Arr(self.inconclusive.iter().map(|s| Json::Str(s.clone())).collect()),
        );
        println!("STATS {}", o.render());
        let _ = std::io::stdout().flush();
    }
}

pub fn flavour() -> &'static str {
    if cfg!(miri) {
        "miri"
    } else if option_env!("WPMON_FLAVOUR").is_some() {
        option_env!("WPMON_FLAVOUR").unwrap()
    } else if cfg!(debug_assertions) {
        "dbg"
    } else {
        "rel"
    }
}

fn violation_json(v: &Violation, args: &Args) -> Json {
    let mut o = Json::obj();
    o.set(
        "props",
        Json::Arr(v.props.iter().map(|p| Json::Str(p.to_string())).collect()),
    );
    o.set("engine", Json::Str(args.engine.clone()));
    o.set("flavour", Json::Str(flavour().into()));
    o.set("seed", Json::U(args.seed));
    o.set("tier", Json::Str(args.tier.clone()));
    o.set("sig", Json::Str(v.sig.clone()));
    o.set("what", Json::Str(v.what.clone()));
    o.set("case", v.case.clone());
    let mut kv = Json::obj();
    for (k, val) in &args.kv {
        kv.set(k, Json::Str(val.clone()));
    }
    if let Some(c) = args.cases {
        kv.set("cases", Json::Str(c.to_string()));
    }
    o.set("args", kv);
    o
}

// ---------------------------------------------------------------------------
// Panic capture

use std::cell::RefCell;

thread_local! {
    static LAST_PANIC: RefCell<Option<String>> = const { RefCell::new(None) };
}

/// Installs a panic hook that records the message and location instead of
/// printing them (the engines run thousands of expected / probed panics).
pub fn install_quiet_panic_hook() {
    std::panic::set_hook(Box::new(|info| {
        let msg = if let Some(s) = info.payload().downcast_ref::<&str>() {
            s.to_string()
        } else if let Some(s) = info.payload().downcast_ref::<String>() {
            s.clone()
        } else {
            "<non-string panic>".to_string()
        };
        let loc = info
            .location()
            .map(|l| format!("{}:{}", l.file(), l.line()))
            .unwrap_or_default();
        LAST_PANIC.with(|p| *p.borrow_mut() = Some(format!("{} @ {}", msg, loc)));
    }));
}

pub fn take_last_panic() -> String {
    LAST_PANIC
        .with(|p| p.borrow_mut().take())
        .unwrap_or_else(|| "<unknown panic>".to_string())
}

/// Runs `f`, converting a panic into `Err(message @ location)`.
pub fn catch<T>(f: impl FnOnce() -> T) -> Result<T, String> {
    match std::panic::catch_unwind(std::panic::AssertUnwindSafe(f)) {
        Ok(v) => Ok(v),
        Err(_) => Err(take_last_panic()),
    }
}

/// Strips line numbers and long payloads from a panic message so that it can
/// serve as a stable signature.
pub fn panic_sig(msg: &str) -> String {
    let mut out = String::new();
    let head: String = msg.chars().take(60).collect();
    for c in head.chars() {
        if c.is_ascii_digit() {
            if !out.ends_with('#') {
                out.push('#');
            }
        } else if c.is_ascii_alphanumeric() || c == '_' || c == '/' || c == '.' {
            out.push(c);
        } else if !out.ends_with('-') {
            out.push('-');
        }
    }
    if let Some(at) = msg.rfind(" @ ") {
        let loc = &msg[at + 3..];
        let file = loc.split(':').next().unwrap_or("");
        let file = file.rsplit('/').next().unwrap_or(file);
        out.push('@');
        out.push_str(file);
    }
    out
}

/// Scratch directory for files the engines create (and remove) at run time:
/// $WPMON_TMP if set, else /verif/target/tmp (never /tmp).
pub fn scratch_dir() -> std::path::PathBuf {
    let p = std::env::var_os("WPMON_TMP").map(std::path::PathBuf::from).unwrap_or_else(|| std::path::PathBuf::from("/verif/target/tmp"));
    let _ = std::fs::create_dir_all(&p);
    p
}

/// Greedy delta-debugging style shrinker: deletes chunks of items while
/// `fails` (same oracle, same signature) still holds.  Bounded by `budget`
/// re-executions.
pub fn shrink_vec<T: Clone>(items: &[T], fails: impl Fn(&[T]) -> bool, budget: usize) -> Vec<T> {
    let mut cur: Vec<T> = items.to_vec();
    let mut runs = 0usize;
    let mut chunk = (cur.len() / 2).max(1);
    loop {
        let mut i = 0;
        let mut progressed = false;
        while i < cur.len() && runs < budget {
            let end = (i + chunk).min(cur.len());
            let mut cand = cur.clone();
            cand.drain(i..end);
            runs += 1;
            if !cand.is_empty() && fails(&cand) {
                cur = cand;
                progressed = true;
            } else {
                i += chunk;
            }
        }
        if runs >= budget || (chunk == 1 && !progressed) {
            break;
        }
        chunk = if chunk > 1 { chunk / 2 } else { 1 };
    }
    cur
}
