//! wpmon: runtime monitors for pkhuong/woodpile.
pub mod ctx;
pub mod engines;
pub mod json;
pub mod prng;
