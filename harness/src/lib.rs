//! wpmon: runtime monitors for pkhuong/woodpile.
pub mod ctx;
pub mod engines;
pub mod expose;
pub mod gen;
pub mod hcobs_ref;
pub mod json;
pub mod prng;
pub mod reader;
