#!/bin/bash
# usage: lib/thorough_some.sh C03 C04 ...   (thorough tier for the listed properties)
./check --setup 2>&1 | tail -4
for p in "$@"; do
  echo "##### $p thorough start $(date +%T)"
  /usr/bin/time -f "elapsed %es maxrss %MKB" ./check $p --tier thorough 2>&1 | grep -E "^(OK|VIOL|INCON|KNOWN|  what|ran|elapsed|BUILD)" | cut -c1-300
done
echo ALLDONE
