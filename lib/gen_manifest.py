#!/usr/bin/env python3
"""Regenerates /verif/MANIFEST.json from lib/plans.py (single source of truth)."""
import json
import os
import subprocess
import sys

HERE = os.path.dirname(os.path.abspath(__file__))
ROOT = os.path.dirname(HERE)
sys.path.insert(0, HERE)
import plans  # noqa: E402

props = [json.loads(l) for l in open(os.path.join(ROOT, "properties.jsonl"))]

hook_commits = subprocess.run(
    ["git", "-C", "/repo", "log", "--format=%H %s", "--reverse"], stdout=subprocess.PIPE, text=True
).stdout.splitlines()
hook_commits = [l.split()[0] for l in hook_commits if " verif hook" in l]

manifest = {
    "version": 1,
    "setup_cmd": "./check --setup",
    "hooks": {
        "guard": "woodpile_verif",
        "enable": "RUSTFLAGS=\"--cfg woodpile_verif\" (set by ./check for every build of the harness, which path-depends on /repo's crates)",
        "baseline_off_cmd": "cd /repo && cargo test --workspace --no-fail-fast --offline",
        "source_commits": hook_commits,
        "add_only": True,
    },
    "engines": [],
    "checks": [],
    "not_applicable": [],
    "notes": ("All checks are runtime monitors over executions of the real crates (harness/ path-depends on /repo, so every "
              "check rebuilds from /repo's working tree). Exit 3 = inconclusive/harness error (never a VIOLATION line). "
              "Randomness derives from VERIF_SEED. known_findings.txt lists genuine defects (all four were repaired with fix: commits)."),
}

engines = {}
for p in props:
    pid = p["id"]
    plan = plans.PLANS.get(pid)
    if plan is None:
        manifest["not_applicable"].append({
            "property_id": pid,
            "reason": plans.NOT_APPLICABLE.get(pid, "monitor not built yet in this round (runtime monitoring applies; see DESIGN.md section 5)"),
        })
        continue
    for tier in ("quick", "thorough"):
        for r in plan.get(tier, []):
            engines.setdefault(r["engine"], set()).add(pid)
    manifest["checks"].append({
        "property_id": pid,
        "quick_cmd": "./check %s --tier quick" % pid,
        "thorough_cmd": "./check %s --tier thorough" % pid,
        "evidence_file": "evidence/%s.json" % pid,
        "replay_cmd_template": "./check --replay {path}",
        "engine": ", ".join(sorted(set(r["engine"] for r in plan["quick"]))),
        "level_claimed": {
            "category": plan["level"],
            "text": plan.get("level_text", "Held on the executions produced: " + plan["technique"] + ". A verdict about observed executions only, not a proof."),
            "design_ref": "DESIGN.md section 5 (%s)" % pid,
        },
        "level_note": "; ".join(plan.get("assumptions", [])) or "trusts the harness's reference model",
        "technique": plan["technique"],
    })

for name, served in sorted(engines.items()):
    manifest["engines"].append({
        "name": name,
        "path": "harness/src/engines/",
        "serves_properties": sorted(served),
        "kind_free_text": "sub-command of the wpmon monitor binary (Rust); sharded by ./check",
    })

with open(os.path.join(ROOT, "MANIFEST.json"), "w") as f:
    json.dump(manifest, f, indent=1)
    f.write("\n")
print("checks:", len(manifest["checks"]), "not_applicable:", len(manifest["not_applicable"]))
