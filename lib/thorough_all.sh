#!/bin/bash
./check --setup 2>&1 | tail -4
for i in 15 16 14 12 11 17 18 19 13 08 06 07 02 01 09 03 04 20 10 05; do
  echo "##### C$i thorough start $(date +%T)"
  /usr/bin/time -f "elapsed %es maxrss %MKB" ./check C$i --tier thorough 2>&1 | grep -E "^(OK|VIOL|INCON|KNOWN|  what|ran|elapsed|BUILD)" | cut -c1-300
done
echo ALLDONE
