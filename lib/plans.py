"""Per-property run plans for ./check: which engine, which build flavour,
how many shards, and the text that goes into the evidence files."""

NCPU = 16


def sanitizer_props(kind, run):
    """Properties refuted by a sanitizer report of `kind` in run `run`."""
    if "san_props" in run:
        return list(run["san_props"])
    if kind in ("lsan", "miri-leak"):
        return ["C10"]
    if kind in ("miri-race", "miri-deadlock"):
        return ["C13"]
    return ["C05"]


def R(engine, flavour, shards=NCPU, **kw):
    d = {"engine": engine, "flavour": flavour, "shards": shards, "args": {}}
    for k in ("timeout", "parallel", "miriflags", "san_props"):
        if k in kw:
            d[k] = kw.pop(k)
    d["args"] = {k.replace("_", "-"): v for k, v in kw.items()}
    return d


PLANS = {}

PLANS["C15"] = {
    "level": "exploration",
    "technique": "reference-model monitor (VecDeque) + H4 waste hook evaluated after every operation of exhaustive bounded sweeps and random histories; debug-build rep checks; Miri on short histories",
    "rule": ("cases = operation sequences on SlidingDeque (Vec and SmallVec<[u32;1|2|4|8]> backings): every sequence of "
             "length L over the 10-symbol alphabet {push, pop_front, pop_back, advance 1/2/MAX, clear, slide, write back, write [1]} "
             "(exhaustive sub-sweep), then seeded random histories of up to 600 operations. After every operation the monitor compares "
             "return value, slice view, len, is_empty, front, back with a VecDeque and reads hook H4 (consumed prefix <= container_len/2). "
             "non-trivial = the consumed prefix was non-zero at some step or a slide was observed; distinct = distinct operation "
             "sequence (sweep) or distinct log2-bucketed feature vector (random)."),
    "assumptions": ["hook H4 (verif_waste) reports the real consumed prefix and container length",
                    "exhaustive only up to the stated sequence length; random beyond"],
    "required_features": ["c15.slides_observed", "c15.smallvec_inline_to_heap", "c15.steps_with_nonzero_prefix"],
    "quick": [R("deque-c15", "dbg", sweep_len=7, cases=40000)],
    "thorough": [R("deque-c15", "dbg", sweep_len=8, cases=400000),
                 R("deque-c15", "rel", sweep=0, sweep_len=8, cases=2000000),
                 R("deque-c15", "miri", sweep=0, sweep_len=8, cases=64, timeout=3000)],
}

PLANS["C16"] = {
    "level": "exploration",
    "technique": "reference-model monitor (BTreeMap) evaluated after every operation of exhaustive bounded sweeps and random histories, both item conventions, Vec and SmallVec backings; must-panic probes on clones",
    "rule": ("cases = operation sequences on SortedDeque for both item conventions ((key, Option<value>) pairs; whole-item Ord with "
             "SortedDequeItem) on Vec and SmallVec backings: every sequence of length L over {push next, push skipping a key, push erased "
             "item, remove(k) for k in the key universe, pop_first, pop_last, clear} (exhaustive sub-sweep), then seeded random histories "
             "of up to 300 operations. After every operation: return value, iter().collect(), first, last, is_empty and find(k) for every "
             "k in 0..=max+2 (plus wrong-valued lookups) are compared with a BTreeMap; at the end, on clones, pushes that are not strictly "
             "greater must panic and a greater one must not. non-trivial = at least one pop or middle removal; distinct = distinct "
             "sequence (sweep) or distinct bucketed feature vector (random)."),
    "assumptions": ["keys are strictly increasing in generated pushes (whole-item convention: erasing never reorders distinct keys)",
                    "exhaustive only up to the stated sequence length and key universe; random beyond"],
    "required_features": ["c16.middle_removals", "c16.pops", "c16.bad_push_panics_observed", "c16.successful_finds"],
    "quick": [R("deque-c16", "dbg", sweep_len=6, universe=5, cases=40000)],
    "thorough": [R("deque-c16", "dbg", sweep_len=8, universe=5, cases=400000),
                 R("deque-c16", "rel", sweep=0, cases=2000000),
                 R("deque-c16", "miri", sweep=0, cases=64, timeout=3000)],
}

NOT_APPLICABLE = {}
