"""Per-property run plans for ./check: which engine, which build flavour,
how many shards, and the text that goes into the evidence files."""

NCPU = 16


def sanitizer_props(kind, run):
    """Properties refuted by a sanitizer report of `kind` in run `run`."""
    if "san_props" in run:
        return list(run["san_props"])
    if kind in ("lsan", "miri-leak"):
        return ["C10"]
    if kind in ("miri-race", "miri-deadlock"):
        return ["C13"]
    return ["C05"]


def R(engine, flavour, shards=NCPU, **kw):
    d = {"engine": engine, "flavour": flavour, "shards": shards, "args": {}}
    for k in ("timeout", "parallel", "miriflags", "san_props"):
        if k in kw:
            d[k] = kw.pop(k)
    d["args"] = {k.replace("_", "-"): v for k, v in kw.items()}
    return d


PLANS = {}

PLANS["C15"] = {
    "level": "exploration",
    "technique": "reference-model monitor (VecDeque) + H4 waste hook evaluated after every operation of exhaustive bounded sweeps and random histories; debug-build rep checks; Miri on short histories",
    "rule": ("cases = operation sequences on SlidingDeque (Vec and SmallVec<[u32;1|2|4|8]> backings): every sequence of "
             "length L over the 10-symbol alphabet {push, pop_front, pop_back, advance 1/2/MAX, clear, slide, write back, write [1]} "
             "(exhaustive sub-sweep), then seeded random histories of up to 600 operations. After every operation the monitor compares "
             "return value, slice view, len, is_empty, front, back with a VecDeque and reads hook H4 (consumed prefix <= container_len/2). "
             "non-trivial = the consumed prefix was non-zero at some step or a slide was observed; distinct = distinct operation "
             "sequence (sweep) or distinct log2-bucketed feature vector (random)."),
    "assumptions": ["hook H4 (verif_waste) reports the real consumed prefix and container length",
                    "exhaustive only up to the stated sequence length; random beyond"],
    "required_features": ["c15.slides_observed", "c15.smallvec_inline_to_heap", "c15.steps_with_nonzero_prefix"],
    "quick": [R("deque-c15", "dbg", sweep_len=7, cases=40000)],
    "thorough": [R("deque-c15", "dbg", sweep_len=8, cases=400000),
                 R("deque-c15", "rel", sweep=0, sweep_len=8, cases=2000000),
                 R("deque-c15", "miri", sweep=0, sweep_len=8, cases=64, timeout=3000)],
}

PLANS["C16"] = {
    "level": "exploration",
    "technique": "reference-model monitor (BTreeMap) evaluated after every operation of exhaustive bounded sweeps and random histories, both item conventions, Vec and SmallVec backings; must-panic probes on clones",
    "rule": ("cases = operation sequences on SortedDeque for both item conventions ((key, Option<value>) pairs; whole-item Ord with "
             "SortedDequeItem) on Vec and SmallVec backings: every sequence of length L over {push next, push skipping a key, push erased "
             "item, remove(k) for k in the key universe, pop_first, pop_last, clear} (exhaustive sub-sweep), then seeded random histories "
             "of up to 300 operations. After every operation: return value, iter().collect(), first, last, is_empty and find(k) for every "
             "k in 0..=max+2 (plus wrong-valued lookups) are compared with a BTreeMap; at the end, on clones, pushes that are not strictly "
             "greater must panic and a greater one must not. non-trivial = at least one pop or middle removal; distinct = distinct "
             "sequence (sweep) or distinct bucketed feature vector (random)."),
    "assumptions": ["keys are strictly increasing in generated pushes (whole-item convention: erasing never reorders distinct keys)",
                    "exhaustive only up to the stated sequence length and key universe; random beyond"],
    "required_features": ["c16.middle_removals", "c16.pops", "c16.bad_push_panics_observed", "c16.successful_finds"],
    "quick": [R("deque-c16", "dbg", sweep_len=6, universe=5, cases=40000)],
    "thorough": [R("deque-c16", "dbg", sweep_len=8, universe=5, cases=400000),
                 R("deque-c16", "rel", sweep=0, cases=2000000),
                 R("deque-c16", "miri", sweep=0, cases=64, timeout=3000)],
}

NOT_APPLICABLE = {}

CODEC_RULE = (
    "cases = (a) exhaustive tiny-limit sweep through hook H2 (limits (1,1) (1,2) (2,3) (3,5) (4,7) (3,300)): every string over {FE,FD,00} up to "
    "length L x every 2-way split x 3x3 input methods (borrow/copy/anchored) x 3 drain actions on the encode side, every 2-way split x 3x3 methods "
    "of each encoding on the decode side, and every string over {00,01,02,FC,FD,FE} up to length L' as decoder input; (b) seeded random round trips "
    "with H2 limits (FE/FD-dense strings up to 40 bytes) and with the production limits (lengths around 252 / 64008 / 252+k*64008, six payload "
    "styles, FE/FD planted within +-2 bytes of the limits), each with a random segmentation, input method per piece (borrow, copy, anchored read, "
    "trimmed / split AnchoredSlice, encode_read/decode_read behind a short-read+EINTR reader), drain schedule (consume, advance_slices, Read, peek) "
    "and arena pokes (flush, ensure_capacity, take/swap) on both sides; (c) decoder inputs: valid encodings, truncations (all positions for a set "
    "of messages), header corruptions, substitutions, insertions, deletions. Oracles per case: decode(encode(B)) == B (C01); no FE FD in output, "
    "output == real one-shot undrained output, length bound (C02); output == independent reference encoder, decoder verdict/bytes == independent "
    "reference decoder (C07); every drained+peeked byte string is a prefix of the final output, lag bounds (C09); exposed slices live (C05); arena "
    "counters back to baseline (C10). non-trivial = the case passed every oracle and exercised the codec; distinct = distinct hash of (limits, "
    "chunk-end kinds incl. hold-back situations at call boundaries, input-method transitions, drain kinds) for random cases, distinct input string "
    "for sweep cases.")

CODEC_ASSUME = [
    "hook H2 drives the same EncoderState/DecoderState code as the production entry points (thin wrappers, like the crate's own test helpers)",
    "the reference codec (harness/src/hcobs_ref.rs) is validated at start-up against the literal vectors of the crate's unit tests",
    "exhaustive only for the stated small bounds; random beyond",
]

CODEC_REQ = [
    "codec.reference_self_test_passed",
    "codec.prod.chunk_end.limit.first", "codec.prod.chunk_end.limit.later", "codec.prod.chunk_end.stuff.first",
    "codec.prod.chunk_end.stuff.later", "codec.prod.chunk_end.input.later", "codec.prod.call_boundary_inside_FE|FD",
    "codec.prod.call_boundary_after_FE_released_as_data", "codec.prod.fe_last_of_full_chunk_fd_first_of_next",
    "codec.prod.terminator_after_full_chunk", "codec.prod.zero_length_chunk", "codec.prod.call_boundary_at_chunk_limit",
    "codec.enc.method.Borrow", "codec.enc.method.Copy", "codec.enc.method.Anchored", "codec.enc.method.Read",
    "codec.dec.method.Borrow", "codec.dec.method.Copy", "codec.dec.method.Anchored", "codec.dec.method.Read",
    "codec.enc.drain.consume", "codec.enc.drain.advance_slices", "codec.enc.drain.read",
]

PLANS["C01"] = {
    "level": "exploration",
    "technique": "identity round-trip oracle over real Encoder->Decoder executions (exhaustive tiny-limit sweep via H2 + random production-limit cases, all input methods, drains); ASan and Miri watch the same executions in the thorough tier",
    "rule": CODEC_RULE,
    "assumptions": CODEC_ASSUME,
    "required_features": CODEC_REQ,
    "quick": [R("codec", "dbg", mode="sweep,random", sweep_len=7, dec_sweep_len=3, prod_cases=80000, tiny_cases=1500000)],
    "thorough": [R("codec", "dbg", mode="sweep,random", sweep_len=9, dec_sweep_len=3, prod_cases=150000, tiny_cases=4000000),
                 R("codec", "rel", mode="random", prod_cases=600000, tiny_cases=8000000, max_len=1000000),
                 R("codec", "asan", mode="random", prod_cases=30000, tiny_cases=300000),
                 R("codec", "miri", mode="random", prod_cases=48, tiny_cases=400, timeout=3000)],
}

PLANS["C02"] = {
    "level": "exploration",
    "technique": "monitors on every produced byte stream: FE FD scan over drained++finished bytes, comparison with the real encoder's one-shot undrained output (with attribution re-run), length-bound check; tight-length workload",
    "rule": CODEC_RULE,
    "assumptions": CODEC_ASSUME,
    "required_features": CODEC_REQ,
    "quick": [R("codec", "dbg", mode="sweep,random", sweep_len=7, dec_sweep_len=3, prod_cases=80000, tiny_cases=1500000, drain_weight=50)],
    "thorough": [R("codec", "dbg", mode="sweep,random", sweep_len=9, dec_sweep_len=3, prod_cases=150000, tiny_cases=4000000, drain_weight=50),
                 R("codec", "rel", mode="random", prod_cases=600000, tiny_cases=8000000, max_len=1000000, drain_weight=50)],
}

PLANS["C07"] = {
    "level": "exploration",
    "technique": "differential monitor against an independently written reference codec with literal 252/64008/253 (encoder bytes; decoder accept/reject and bytes), exhaustive small decoder inputs via H2, all truncations, header surgery",
    "rule": CODEC_RULE,
    "assumptions": CODEC_ASSUME,
    "required_features": CODEC_REQ + ["codec.dec.accepted_as_expected", "codec.dec.rejected_as_expected", "codec.dec.truncation_positions",
                                      "codec.dec.input.first-header", "codec.dec.input.later-header"],
    "quick": [R("codec", "dbg", mode="all", sweep_len=6, dec_sweep_len=7, prod_cases=40000, tiny_cases=600000, dec_cases=1500000)],
    "thorough": [R("codec", "dbg", mode="all", sweep_len=8, dec_sweep_len=8, prod_cases=100000, tiny_cases=2000000, dec_cases=4000000),
                 R("codec", "rel", mode="random,decoder", prod_cases=400000, tiny_cases=4000000, dec_cases=10000000, max_len=1000000)],
}

PLANS["C09"] = {
    "level": "exploration",
    "technique": "online prefix/lag monitor after every feed call (hash of drained++peek vs final output; total_size minus stable bytes vs constant bound; decoder lag 0), plus long-stream runs with on-the-fly comparison of drained bytes to the reference stream",
    "rule": CODEC_RULE + (" Long streams (codec-stream): production encoder (and encoder->decoder pipeline) fed S MiB of no-FE / all-stuff / uniform / dense "
                          "payload in pieces of 1 B..256 KiB by borrow/copy/encode_read, drained never / everything after every call (random mechanism) / "
                          "randomly; drained bytes are compared on the fly with the reference encoding; the maximum lag per stream length is recorded."),
    "assumptions": CODEC_ASSUME + ["lag bound checked: 1 MiB (largest arena chunk; harness keeps single reads <= 1 MiB) + 64008 + 2",
                                   "unbounded stream length restated as: same bound observed at several stream lengths"],
    "required_features": CODEC_REQ + ["stream.policy.Never", "stream.policy.AllEveryCall", "stream.pipeline"],
    "quick": [R("codec", "dbg", mode="sweep,random", sweep_len=6, dec_sweep_len=3, prod_cases=60000, tiny_cases=1000000, drain_weight=70),
              R("codec-stream", "rel", shards=16, streams=64, mib=16, big_mib=64)],
    "thorough": [R("codec", "dbg", mode="sweep,random", sweep_len=8, dec_sweep_len=3, prod_cases=150000, tiny_cases=3000000, drain_weight=70),
                 R("codec", "rel", mode="random", prod_cases=600000, tiny_cases=6000000, drain_weight=70, max_len=1000000),
                 R("codec-stream", "rel", shards=16, streams=192, mib=64, big_mib=512),
                 R("codec-stream", "dbg", shards=16, streams=64, mib=16, big_mib=64)],
}
