"""Per-property run plans for ./check: which engine, which build flavour,
how many shards, and the text that goes into the evidence files."""

NCPU = 16


def sanitizer_props(kind, run):
    """Properties refuted by a sanitizer report of `kind` in run `run`."""
    if "san_props" in run:
        return list(run["san_props"])
    if kind in ("lsan", "miri-leak"):
        return ["C10"]
    if kind in ("miri-race", "miri-deadlock"):
        # vouched_time engines: the atomics protocol; everywhere else a data
        # race is one thread writing arena memory another thread can read
        if run["engine"] == "abt":
            return ["C13"]
        if run["engine"] == "park":
            return ["C18", "C13"]
        return ["C05", "C20"]
    return ["C05"]


def R(engine, flavour, shards=NCPU, **kw):
    d = {"engine": engine, "flavour": flavour, "shards": shards, "args": {}}
    for k in ("timeout", "parallel", "miriflags", "san_props", "no_restart"):
        if k in kw:
            d[k] = kw.pop(k)
    d["args"] = {k.replace("_", "-"): v for k, v in kw.items()}
    return d


PLANS = {}

PLANS["C15"] = {
    "level": "exploration",
    "technique": "reference-model monitor (VecDeque) + H4 waste hook evaluated after every operation of exhaustive bounded sweeps and random histories; debug-build rep checks; Miri on short histories",
    "rule": ("cases = operation sequences on SlidingDeque (Vec and SmallVec<[u32;1|2|4|8]> backings): every sequence of "
             "length L over the 10-symbol alphabet {push, pop_front, pop_back, advance 1/2/MAX, clear, slide, write back, write [1]} "
             "(exhaustive sub-sweep), then seeded random histories of up to 600 operations. After every operation the monitor compares "
             "return value, slice view, len, is_empty, front, back with a VecDeque and reads hook H4 (consumed prefix <= container_len/2). "
             "non-trivial = the consumed prefix was non-zero at some step or a slide was observed; distinct = distinct operation "
             "sequence (sweep) or distinct log2-bucketed feature vector (random)."),
    "assumptions": ["hook H4 (verif_waste) reports the real consumed prefix and container length",
                    "exhaustive only up to the stated sequence length; random beyond"],
    "required_features": ["c15.slides_observed", "c15.smallvec_inline_to_heap", "c15.steps_with_nonzero_prefix", "c15.clone_clone_from_swap_from_container_ops"],
    "quick": [R("deque-c15", "dbg", sweep_len=8, cases=200000),
              R("deque-c15", "rel", sweep_len=7, cases=400000)],
    "thorough": [R("deque-c15", "dbg", sweep_len=9, cases=4000000),
                 R("deque-c15", "rel", sweep=0, sweep_len=9, cases=40000000),
                 R("deque-c15", "miri", sweep=0, sweep_len=9, cases=256, timeout=3000)],
}

PLANS["C16"] = {
    "level": "exploration",
    "technique": "reference-model monitor (BTreeMap) evaluated after every operation of exhaustive bounded sweeps and random histories, both item conventions, Vec and SmallVec backings; must-panic probes on clones",
    "rule": ("cases = operation sequences on SortedDeque for both item conventions ((key, Option<value>) pairs; whole-item Ord with "
             "SortedDequeItem) on Vec and SmallVec backings: every sequence of length L over {push next, push skipping a key, push erased "
             "item, remove(k) for k in the key universe, pop_first, pop_last, clear} (exhaustive sub-sweep), then seeded random histories "
             "of up to 300 operations. After every operation: return value, iter().collect(), first, last, is_empty and find(k) for every "
             "k in 0..=max+2 (plus wrong-valued lookups) are compared with a BTreeMap; at the end, on clones, pushes that are not strictly "
             "greater must panic and a greater one must not. non-trivial = at least one pop or middle removal; distinct = distinct "
             "sequence (sweep) or distinct bucketed feature vector (random)."),
    "assumptions": ["keys are strictly increasing in generated pushes (whole-item convention: erasing never reorders distinct keys)",
                    "exhaustive only up to the stated sequence length and key universe; random beyond"],
    "required_features": ["c16.middle_removals", "c16.pops", "c16.bad_push_panics_observed", "c16.successful_finds", "c16.histories_with_32_or_more_middle_removals",
                          "c16.rejected_pushes_then_history_continues", "c16.histories_starting_from_SortedDeque_new_of_a_filled_container"],
    "quick": [R("deque-c16", "dbg", sweep_len=7, universe=5, cases=200000),
              R("deque-c16", "rel", sweep_len=6, universe=5, cases=400000)],
    "thorough": [R("deque-c16", "dbg", sweep_len=8, universe=5, cases=400000),
                 R("deque-c16", "rel", sweep=0, cases=20000000),
                 R("deque-c16", "miri", sweep=0, cases=256, timeout=3000)],
}

NOT_APPLICABLE = {}

CODEC_RULE = (
    "cases = (a) exhaustive tiny-limit sweep through hook H2 (limits (1,1) (1,2) (2,3) (3,5) (4,7) (3,300)): every string over {FE,FD,00} up to "
    "length L x every 2-way split x 3x3 input methods (borrow/copy/anchored) x 3 drain actions on the encode side, every 2-way split x 3x3 methods "
    "of each encoding on the decode side, and every string over {00,01,02,FC,FD,FE} up to length L' as decoder input; (b) seeded random round trips "
    "with H2 limits (FE/FD-dense strings up to 40 bytes) and with the production limits (lengths around 252 / 64008 / 252+k*64008, six payload "
    "styles, FE/FD planted within +-2 bytes of the limits), each with a random segmentation, input method per piece (borrow, copy, anchored read, "
    "trimmed / split AnchoredSlice, encode_read/decode_read behind a short-read+EINTR reader), drain schedule (consume, advance_slices, Read, peek) "
    "and arena pokes (flush, ensure_capacity, take/swap) on both sides; (c) decoder inputs: valid encodings, truncations (all positions for a set "
    "of messages), header corruptions, substitutions, insertions, deletions. Oracles per case: decode(encode(B)) == B (C01); no FE FD in output, "
    "output == real one-shot undrained output, length bound (C02); output == independent reference encoder, decoder verdict/bytes == independent "
    "reference decoder (C07); every drained+peeked byte string is a prefix of the final output, lag bounds (C09); exposed slices live (C05); arena "
    "counters back to baseline (C10). non-trivial = the case passed every oracle and exercised the codec; distinct = distinct hash of (limits, "
    "chunk-end kinds incl. hold-back situations at call boundaries, input-method transitions, drain kinds) for random cases, distinct input string "
    "for sweep cases.")

CODEC_ASSUME = [
    "hook H2 drives the same EncoderState/DecoderState code as the production entry points (thin wrappers, like the crate's own test helpers)",
    "the reference codec (harness/src/hcobs_ref.rs) is validated at start-up against the literal vectors of the crate's unit tests",
    "exhaustive only for the stated small bounds; random beyond",
]

CODEC_REQ = [
    "codec.reference_self_test_passed",
    "codec.prod.chunk_end.limit.first", "codec.prod.chunk_end.limit.later", "codec.prod.chunk_end.stuff.first",
    "codec.prod.chunk_end.stuff.later", "codec.prod.chunk_end.input.later", "codec.prod.call_boundary_inside_FE|FD",
    "codec.prod.call_boundary_after_FE_released_as_data", "codec.prod.fe_last_of_full_chunk_fd_first_of_next",
    "codec.prod.terminator_after_full_chunk", "codec.prod.zero_length_chunk", "codec.prod.call_boundary_at_chunk_limit",
    "codec.enc.method.Borrow", "codec.enc.method.Copy", "codec.enc.method.Anchored", "codec.enc.method.Read",
    "codec.dec.method.Borrow", "codec.dec.method.Copy", "codec.dec.method.Anchored", "codec.dec.method.Read",
    "codec.enc.method.AnchoredSplitHold", "codec.dec.method.AnchoredSplitHold",
    "codec.enc.method.SinkCopy", "codec.enc.method.SinkBorrow",
    "codec.enc.zero_length_piece_in_the_middle", "codec.dec.zero_length_piece_in_the_middle",
    "codec.reads_retried_after_a_transient_failure",
    "codec.reuse.encoder.anchored_slices_carried_into_the_next_message",
    "codec.reuse.decoder.anchored_slices_carried_into_the_next_message",
    "codec.enc.drain.consume", "codec.enc.drain.advance_slices", "codec.enc.drain.read",
]

PLANS["C01"] = {
    "level": "exploration",
    "technique": "identity round-trip oracle over real Encoder->Decoder executions (exhaustive tiny-limit sweep via H2 + random production-limit cases, all input methods, drains); ASan and Miri watch the same executions in the thorough tier",
    "rule": CODEC_RULE,
    "assumptions": CODEC_ASSUME,
    "required_features": CODEC_REQ,
    "quick": [R("codec", "dbg", mode="sweep,random", sweep_len=7, dec_sweep_len=3, prod_cases=80000, tiny_cases=1500000)],
    "thorough": [R("codec", "dbg", mode="sweep,random", sweep_len=9, dec_sweep_len=3, prod_cases=150000, tiny_cases=4000000),
                 R("codec", "rel", mode="random", prod_cases=600000, tiny_cases=8000000, max_len=1000000),
                 R("codec", "asan", mode="random", prod_cases=30000, tiny_cases=300000),
                 R("codec", "miri", mode="random", prod_cases=48, tiny_cases=400, timeout=3000)],
}

PLANS["C02"] = {
    "level": "exploration",
    "technique": "monitors on every produced byte stream: FE FD scan over drained++finished bytes, comparison with the real encoder's one-shot undrained output (with attribution re-run), length-bound check; tight-length workload",
    "rule": CODEC_RULE,
    "assumptions": CODEC_ASSUME,
    "required_features": CODEC_REQ,
    "quick": [R("codec", "dbg", mode="sweep,random", sweep_len=7, dec_sweep_len=3, prod_cases=80000, tiny_cases=1500000, drain_weight=50)],
    "thorough": [R("codec", "dbg", mode="sweep,random", sweep_len=9, dec_sweep_len=3, prod_cases=150000, tiny_cases=4000000, drain_weight=50),
                 R("codec", "rel", mode="random", prod_cases=600000, tiny_cases=8000000, max_len=1000000, drain_weight=50)],
}

PLANS["C07"] = {
    "level": "exploration",
    "technique": "differential monitor against an independently written reference codec with literal 252/64008/253 (encoder bytes; decoder accept/reject and bytes), exhaustive small decoder inputs via H2, all truncations, header surgery",
    "rule": CODEC_RULE,
    "assumptions": CODEC_ASSUME,
    "required_features": CODEC_REQ + ["codec.dec.accepted_as_expected", "codec.dec.rejected_as_expected", "codec.dec.truncation_positions",
                                      "codec.dec.input.first-header", "codec.dec.input.later-header"],
    "quick": [R("codec", "dbg", mode="all", sweep_len=6, dec_sweep_len=7, prod_cases=40000, tiny_cases=600000, dec_cases=1500000)],
    "thorough": [R("codec", "dbg", mode="all", sweep_len=8, dec_sweep_len=8, prod_cases=100000, tiny_cases=2000000, dec_cases=4000000),
                 R("codec", "rel", mode="random,decoder", prod_cases=400000, tiny_cases=4000000, dec_cases=10000000, max_len=1000000)],
}

PLANS["C09"] = {
    "level": "exploration",
    "technique": "online prefix/lag monitor after every feed call (hash of drained++peek vs final output; total_size minus stable bytes vs constant bound; decoder lag 0), plus long-stream runs with on-the-fly comparison of drained bytes to the reference stream",
    "rule": CODEC_RULE + (" Long streams (codec-stream): production encoder (and encoder->decoder pipeline) fed S MiB of no-FE / all-stuff / uniform / dense "
                          "payload in pieces of 1 B..256 KiB by borrow/copy/encode_read, drained never / everything after every call (random mechanism) / "
                          "randomly; drained bytes are compared on the fly with the reference encoding; the maximum lag per stream length is recorded."),
    "assumptions": CODEC_ASSUME + ["lag bound checked: 1 MiB (largest arena chunk; harness keeps single reads <= 1 MiB) + 64008 + 2",
                                   "unbounded stream length restated as: same bound observed at several stream lengths"],
    "required_features": CODEC_REQ + ["stream.policy.Never", "stream.policy.AllEveryCall", "stream.pipeline", "codec.dec.abandoned_midway_take_iovec_is_prefix"],
    "quick": [R("codec", "dbg", mode="sweep,random", sweep_len=6, dec_sweep_len=3, prod_cases=60000, tiny_cases=1000000, drain_weight=70),
              R("codec-stream", "rel", shards=16, streams=64, mib=16, big_mib=64)],
    "thorough": [R("codec", "dbg", mode="sweep,random", sweep_len=8, dec_sweep_len=3, prod_cases=150000, tiny_cases=3000000, drain_weight=70),
                 R("codec", "rel", mode="random", prod_cases=600000, tiny_cases=6000000, drain_weight=70, max_len=1000000),
                 R("codec-stream", "rel", shards=16, streams=512, mib=128, big_mib=512),
                 R("codec-stream", "dbg", shards=16, streams=64, mib=16, big_mib=64)],
}

IOVEC_RULE = (
    "cases = seeded random histories of 1..400 operations over up to six live OwningIovecs (created by new / new_from_slices / collect / "
    "new_from_arena): push, push_borrowed, push_copy (lengths around 64 / 256 / arena chunk sizes), extend (with empty slices), anchored pushes "
    "(arena().read_n behind a short-read reader, skip_prefix / drop_suffix / split_at, components, push_borrowed, push_anchor; halves held back and "
    "pushed later, possibly into another iovec), push_anchor(default), register_patch(0..4 bytes), backfill_or_panic in any order, clear, take, "
    "clone (only with nothing pending), drop of an iovec mid-history, arena flush / ensure_capacity / take_arena / swap_arena between iovecs and "
    "held arenas; consumer side consume(k), advance_slices(n), pop_front, Read::read, read_to_end. After EVERY operation EVERY live iovec is compared "
    "with its own shadow pipe: total_size, len/is_empty, has_pending_backrefs, stable_prefix bytes (byte-for-byte, never beyond the earliest pending "
    "placeholder, everything when none is pending), front, iovs, flatten, flatten_into, iteration, stable_consumer status; every exposed slice is "
    "located in the H1 live-chunk registry or the harness's own pool and arena-resident slices must be disjoint; held AnchoredSlices must keep "
    "their bytes. Histories end by dropping all objects in a seeded random order (survivors re-observed after each drop), then the process-wide "
    "arena counters must be back at their starting values. non-trivial = every history (each performs at least one monitored operation); distinct "
    "= distinct hash of the log2-bucketed feature vector (merges, partial consumptions, arena growth, out-of-order backfills, placeholders "
    "registered into merged slices, consumption while pending, clones, takes, arena swaps, held slices pushed later, max pending, length class).")

IOVEC_ASSUME = [
    "hook H1 reports exactly the live arena chunks (address ranges only)",
    "every appended region is a distinct window of a position-dependent pattern, so stale/aliased reads differ in content",
    "slice counts and merge decisions are never predicted (implementation freedom); only bytes and each call's own report are",
]

IOVEC_REQ = [
    "iovec.merge_happened", "iovec.merge_refused", "iovec.partial_consumption_of_a_slice", "iovec.arena_chunk_allocated",
    "iovec.anchored_pushes", "iovec.clear_with_outstanding_data", "iovec.backfill_out_of_order",
    "iovec.placeholder_registered_into_merged_slice", "iovec.consumption_while_placeholder_pending",
    "iovec.observations_with_bytes_blocked_behind_placeholder", "iovec.all_placeholders_filled_events",
    "iovec.clones", "iovec.takes", "iovec.arena_swaps", "iovec.held_anchored_slice_pushed_later",
    "iovec.iovec_dropped_mid_history", "iovec.drop_accounting_checked",
]

PLANS["C03"] = {
    "level": "exploration",
    "technique": "shadow-pipe reference monitor evaluated on every live iovec after every operation of random multi-iovec histories (dbg incl. crate rep-checks; rel volume, ASan and Miri in the thorough tier)",
    "rule": IOVEC_RULE, "assumptions": IOVEC_ASSUME, "required_features": IOVEC_REQ + ["iovec.single_advance_across_more_than_1024_slices", "iovec.pushes_through_ZeroCopySink", "iovec.consumption_through_StableIovec", "iovec.StableIovec_flatten_views_compared"],
    "quick": [R("iovec", "dbg", cases=300000, focus="C03"),
              R("iovec", "rel", cases=300000, focus="C03")],
    "thorough": [R("iovec", "dbg", cases=3000000, focus="C03"),
                 R("iovec", "rel", cases=8000000, focus="C03"),
                 R("iovec", "asan", cases=200000, focus="C03"),
                 R("iovec", "miri", cases=96, focus="C03", timeout=3000, miriflags="-Zmiri-disable-isolation -Zmiri-disable-stacked-borrows")],
}
PLANS["C04"] = {
    "level": "exploration",
    "technique": "shadow-pipe monitor with placeholder marks: observed bytes never reach the earliest pending placeholder, accessor Ok/Err status == (no placeholder pending), placeholder-heavy random histories with out-of-order fills",
    "rule": IOVEC_RULE, "assumptions": IOVEC_ASSUME, "required_features": IOVEC_REQ + ["iovec.rejected_wrong_size_backfills", "iovec.histories_with_32_or_more_placeholders_in_flight", "iovec.clones_taken_while_a_placeholder_was_pending"],
    "quick": [R("iovec", "dbg", cases=300000, focus="C04"),
              R("iovec", "rel", cases=300000, focus="C04")],
    "thorough": [R("iovec", "dbg", cases=3000000, focus="C04"),
                 R("iovec", "rel", cases=8000000, focus="C04"),
                 R("iovec", "miri", cases=96, focus="C04", timeout=3000, miriflags="-Zmiri-disable-isolation -Zmiri-disable-stacked-borrows")],
}
PLANS["C20"] = {
    "level": "exploration",
    "technique": "one shadow per live iovec, all compared after every operation on any of them (interference shows on the untouched side); clone/take-heavy histories with arena swaps and either side dropped first",
    "rule": IOVEC_RULE, "assumptions": IOVEC_ASSUME, "required_features": IOVEC_REQ + ["iovec.cross_thread_clone_reads_checked"],
    "quick": [R("iovec", "dbg", cases=300000, focus="C20"),
              R("iovec", "rel", cases=300000, focus="C20")],
    "thorough": [R("iovec", "dbg", cases=3000000, focus="C20"),
                 R("iovec", "rel", cases=8000000, focus="C20"),
                 R("iovec", "asan", cases=200000, focus="C20"),
                 R("iovec", "miri", cases=96, focus="C20", timeout=3000, miriflags="-Zmiri-disable-isolation -Zmiri-disable-stacked-borrows")],
}

STREAM_RULE = (
    "cases = generated byte streams (valid records = reference encodings of empty / FE FD-containing / ~64 KiB / random payloads, 1-3 delimiters, "
    "delimiter-free garbage, torn prefixes of valid records, single-byte corruptions, FE FE FD / FE FD FD runs, leading FD, lone trailing FE) and "
    "crashed-writer logs (rec FEFD rec FEFD ...) truncated at EVERY byte; each read through a scripted reader (full reads / all single bytes / "
    "random short reads, EINTR injected) with io_block_size in {0,1,2,3,4,5,7,8,64,4096,default}. Chunker cases drive StreamChunker::pump with its "
    "own arena (fresh / nearly full / flushed or swapped between pumps) and check the tiling model on every chunk: positions, bytes, no empty "
    "Data, no FE FD inside or straddling consecutive Data, Eof only at the real end and sticky; Data slices held until the end must keep their "
    "bytes. Reader cases drive StreamReader::next_record_bytes with chunk_judge(max in {MAX,0,small}, limit in {None,0,at/after a delimiter, "
    "mid-record, beyond end}) or a harness judge skipping by start offset, and compare the returned (bytes, range) sequence with: split at "
    "leftmost non-overlapping FE FD, reference-decode every non-empty segment, drop oversize/skipped ones, stop at the first segment starting at or "
    "after the limit; then None twice; last_sentinel_offset at a natural end. non-trivial = every case; distinct = distinct hash of (block size, "
    "arena mode, #data chunks, #sentinels, hold-back / trailing-FE / FE FE FD seen, EINTR seen, length class) resp. (block size, #records, "
    "#oversize, #invalid, #judge-skipped, stopped, EINTR seen, length class).")

STREAM_ASSUME = [
    "the reader never returns a hard error (the property quantifies over short reads and interrupted calls)",
    "the harness judge returns KeepGoing on an empty range (SkipRecord there trips an internal assertion outside the property's quantifier)",
    "reference codec validated against the crate's literal test vectors at start-up",
]

PLANS["C08"] = {
    "level": "exploration",
    "technique": "tiling-model monitor over every Chunk returned by StreamChunker::pump on hostile streams, read schedules, block sizes (incl. 0 and 1) and arena states; held Data slices re-checked after arena churn",
    "rule": STREAM_RULE, "assumptions": STREAM_ASSUME,
    "required_features": ["stream.chunker.sentinels", "stream.chunker.fe_first_byte_of_next_chunk", "stream.chunker.trailing_FE_at_end_of_stream",
                          "stream.chunker.FE_FE_FD", "stream.chunker.block_size_below_2", "stream.chunker.reader_interrupts",
                          "stream.chunker.arena.NearlyFull", "stream.chunker.arena.SwapBetween", "stream.chunker.block_size_changed_between_pumps",
                          "stream.chunker.more_than_65536_interrupts_in_one_stream"],
    "quick": [R("stream", "dbg", mode="chunker", chunk_cases=1500000)],
    "thorough": [R("stream", "dbg", mode="chunker", chunk_cases=20000000),
                 R("stream", "rel", mode="chunker", chunk_cases=40000000),
                 R("stream", "asan", mode="chunker", chunk_cases=400000)],
}
PLANS["C06"] = {
    "level": "exploration",
    "technique": "reference-model monitor (segment at FE FD, independent reference decoder, judge model) over every (record, range) returned by StreamReader on hostile streams, every truncation point of crashed-writer logs, short-read/EINTR schedules, all block sizes",
    "rule": STREAM_RULE, "assumptions": STREAM_ASSUME,
    "required_features": ["stream.reader.records_returned", "stream.reader.oversize_skipped", "stream.reader.invalid_segments_skipped",
                          "stream.reader.judge_skipped", "stream.reader.stopped_by_limit", "stream.reader.block_size_below_2",
                          "stream.reader.default_block_size", "stream.reader.log_truncation_points", "stream.reader.reader_interrupts",
                          "stream.reader.1MiB_blocks_on_a_stream_longer_than_2MiB"],
    "quick": [R("stream", "dbg", mode="reader,logs", reader_cases=1000000, log_cases=200)],
    "thorough": [R("stream", "dbg", mode="reader,logs", reader_cases=16000000, log_cases=4000),
                 R("stream", "rel", mode="reader,logs", reader_cases=30000000, log_cases=4000),
                 R("stream", "asan", mode="reader,logs", reader_cases=300000, log_cases=100)],
}
PLANS["C17"] = {
    "level": "fault_enumeration",
    "technique": "fault enumeration: every reader script over {deliver 1, deliver 2, fill, Interrupted, EOF, error(Other), error(WouldBlock)} up to a bounded length x counts x attempt limits x arena states, checked against a sequential model of the documented retry rule (call count, offered sizes, result, bytes, codec output afterwards)",
    "level_text": "Bounded-complete enumeration of I/O fault scripts against the real read_n / encode_read / decode_read, plus random long scripts; held on everything enumerated, not a proof beyond the bound.",
    "rule": ("cases = reader fault scripts: ALL scripts over the 7-symbol alphabet {Deliver(1), Deliver(2), Fill, Interrupted, Eof, Fail(Other), "
             "Fail(WouldBlock)} up to length L (EOF after the script) x count in {0,1,2,3,5} x max_attempts in {1,2,3,MAX} x arena state in {fresh, "
             "nearly full chunk, after flush} against ByteArena::read_n; all scripts up to length L' x counts x attempts against Encoder::encode_read, "
             "Encoder::read_n+encode_anchored, Decoder::decode_read, Decoder::read_n+decode_anchored (surrounded by other input so that the codec output "
             "afterwards is checked against the reference codec on exactly the delivered bytes); then seeded random scripts of up to 30 steps with counts "
             "up to 70000 and sources shorter than count. Oracle: number of reader calls <= max_attempts and equal to the model's, every call offered "
             "exactly count minus delivered-so-far bytes, result Ok(delivered bytes) / Err(kind of last error) per the documented rule, count 0 => no "
             "call; a follow-up read does not alias or clobber the first slice; slices survive dropping the arena; arena counters return to baseline. "
             "non-trivial = every script (each drives at least the model comparison); distinct = distinct script (sweep) or distinct outcome vector (random)."),
    "assumptions": ["exhaustive only up to the stated script length; random beyond",
                    "the scripted reader logs the buffer length and outcome of every call it receives"],
    "required_features": ["readn.result.ok_full", "readn.result.ok_short", "readn.result.ok_empty_on_eof", "readn.result.err_nothing_delivered",
                          "readn.eintr_retried", "readn.attempt_limit_reached", "readn.target.1", "readn.target.2", "readn.target.3", "readn.target.4",
                          "readn.wrapper.output_drained_before_the_read", "readn.wrapper.arena_moved_on_after_the_read"],
    "quick": [R("readn", "dbg", script_len=6, wrapper_script_len=5, cases=3000000)],
    "thorough": [R("readn", "dbg", script_len=8, wrapper_script_len=6, cases=40000000),
                 R("readn", "asan", script_len=4, wrapper_script_len=3, cases=100000),
                 R("readn", "miri", sweep=0, cases=160, timeout=3000, miriflags="-Zmiri-disable-isolation -Zmiri-disable-stacked-borrows")],
}

PLANS["C11"] = {
    "level": "exploration",
    "technique": "independent layout builder (stable sort by little-endian tag, count, N-1 running sums, tags, values) compared byte-for-byte with what MessageWrapper emits into an OwningIovec or an hcobs Encoder, rough_tlv_len check (also for nested wrappers), MessageView read-back; arithmetic acceptance predicate probed with length-claiming values",
    "rule": ("cases = (a) pair lists: count 0..8 (sometimes 50..300), tags from a small universe (forces repeats) incl. 0, u32::MAX and tags whose "
             "little-endian and byte-wise orders disagree, value lengths 0..600; value kinds &[u8], &str, Cow<[u8]> and Cow<str> (borrowed and owned "
             "mixed), &MessageWrapper nested 2 and 3 deep, MessageView as a value; constructors new / new_from_slice / new_from_sorted (sorted and "
             "unsorted inputs); sinks OwningIovec and hcobs::Encoder (decoded again by the real Decoder). Oracle: emitted bytes == independent layout, "
             "rough_tlv_len == emitted length (every nesting level), MessageView accepts and returns the stably sorted pairs through iter / get / "
             "find, new_from_sorted rejects iff some tag decreases. (b) limits: lists of values that only CLAIM a length (never encoded), lengths "
             "aimed at i32::MAX-2..+2 for single values and for the total; verdict must equal the arithmetic predicate of the statement. non-trivial "
             "= every case; distinct = distinct (value kind, constructor, sink, count class, repeated-tags, rank/duplicate pattern of the first ten tags, empty/long-value pattern, boundary class)."),
    "assumptions": ["the pair-count limit (> i32::MAX pairs) is implied by the total-length limit (8N > i32::MAX for N >= 2^28); it is probed at "
                    "N = 2^28-1 / 2^28 with zero-sized values in the thorough tier only (1 GiB vector)",
                    "borrowed values outlive the sink: the harness owns every buffer for the whole case"],
    "required_features": ["tlv.c11.kind.Bytes", "tlv.c11.kind.Str", "tlv.c11.kind.CowBytes", "tlv.c11.kind.CowStr", "tlv.c11.kind.Nested2",
                          "tlv.c11.kind.Nested3", "tlv.c11.kind.View", "tlv.c11.ctor.New", "tlv.c11.ctor.FromSlice", "tlv.c11.ctor.FromSorted",
                          "tlv.c11.sink.Hcobs", "tlv.c11.repeated_tags", "tlv.c11.empty_list", "tlv.c11.single_pair", "tlv.c11.large_list",
                          "tlv.c11.limits.accepted", "tlv.c11.limits.rejected", "tlv.c11.limits.total_exactly_i32_max",
                          "tlv.c11.limits.total_one_over", "tlv.c11.limits.single_value_one_over", "tlv.c11.limits.claimed_length_of_2^32_or_more"],
    "quick": [R("tlv-c11", "dbg", cases=10000000, claim_cases=8000000)],
    "thorough": [R("tlv-c11", "dbg", cases=150000000, claim_cases=50000000),
                 R("tlv-c11", "rel", cases=300000000, claim_cases=100000000, count_probe=0),
                 R("tlv-c11", "miri", cases=300, claim_cases=300, timeout=3000, miriflags="-Zmiri-disable-isolation -Zmiri-disable-stacked-borrows")],
}
PLANS["C12"] = {
    "level": "exploration",
    "technique": "independent parser + accessor-agreement monitor (len/tags/iter/get/get_value/find/find_tag/tags_match_exactly, tiling of the payload, out-of-range indices) under catch_unwind on exhaustive small word-level messages, header surgery, truncations; Miri on a slice for the tag-array pointer cast",
    "rule": ("cases = byte strings: EVERY message of up to W little-endian words over {0,1,2,3,4,8,2^32-1} with 0..3 trailing bytes (exhaustive "
             "sub-sweep); valid messages and header surgery on them (N := 0, N+-1, huge N / N near 2^29..2^32, offsets equal / decreasing / last "
             "offset at payload end +-1, tags equal / decreasing, trailing bytes, truncation, bit flips, double surgery), random bytes, every "
             "truncation of a set of valid messages; each as borrowed and as owned Cow. Oracle: accept/reject == independent parser; on accept no "
             "accessor panics, len/is_empty/tags agree, iter yields N items equal to get(i) and (tags[i], get_value(i)), values tile bytes[8N..] "
             "exactly and in order, get/get_value are None for i in {N, N+1, 2N, 2N+1, usize::MAX-1, usize::MAX}, find(t) returns a value stored "
             "under exactly t (pointer-identical) or None when absent (present tags, neighbours +-1, 0, 1, u32::MAX). non-trivial = accepted "
             "message (accessors exercised); distinct = distinct message (sweep) or distinct (input kind, N class, length class)."),
    "assumptions": ["exhaustive only for the stated word alphabet and length; random beyond"],
    "required_features": ["tlv.c12.accepted", "tlv.c12.rejected", "tlv.c12.accepted_empty_messages", "tlv.c12.lookups_of_repeated_tags",
                          "tlv.c12.input.n huge", "tlv.c12.input.last offset at payload end +-1", "tlv.c12.input.offsets decreasing",
                          "tlv.c12.input.tags decreasing", "tlv.c12.truncation_points", "tlv.c12.iterator_adaptors_compared_with_indexed_access"],
    "quick": [R("tlv-c12", "dbg", sweep_words=8, cases=30000000)],
    "thorough": [R("tlv-c12", "dbg", sweep_words=10, cases=400000000),
                 R("tlv-c12", "rel", sweep=0, cases=1000000000),
                 R("tlv-c12", "miri", sweep=0, cases=2000, timeout=3000)],
}

PLANS["C14"] = {
    "level": "exploration",
    "technique": "i128 window-predicate oracle over VouchedTime::new / check / now / get_local_time on a systematic grid (bases at 0, the edges, 2^63, within 70000 of u64::MAX x deltas around both window edges x right/wrong vouchers) and random triples; now() through a recording provider",
    "rule": ("cases = (local time, base time, voucher) triples: a grid of 36 base times (0, 1, the window constants, a 2024 timestamp, the calendar limit, "
             "2^63 +-1, u64::MAX - k for k in {0,1,500,2989..2991,59899..59901,62890,62891,70000} and random k <= 70000) x local = base + d for d in "
             "{-59902..-59898, -1, 0, 1, 2988..2992, ...} plus absolute locals (PrimitiveDateTime::MIN/MAX, epoch -2..+2 ms, 2989..62891 ms after the "
             "epoch) x voucher in {right, for base+1, for base-1, other parameters, random bits}; then seeded random triples (bases in the same regions, "
             "deltas around the edges, one third with a sub-millisecond part away from the edges) and now() calls whose provider records the clock value "
             "it is given and answers with now+d and a right/wrong voucher or an error. Oracle (i128): success <=> voucher is the unique voucher of base "
             "and local_ms >= 0 and -59900 <= local_ms - base <= 2990; new and check agree; never a panic; get_local_time returns the local time exactly; "
             "provider errors propagate. non-trivial = every evaluated triple; distinct = distinct base (grid) or distinct (verdict class, voucher kind, "
             "base region, delta bucket)."),
    "assumptions": ["local times exactly on a window or epoch edge are whole milliseconds (the statement does not define inclusiveness for a sub-millisecond excess; the crate truncates to ms)",
                    "the crate's vouching parameters are the ones in its source; a wrong voucher is any other 64-bit value (the voucher map is a bijection)"],
    "required_features": ["vtime.accepted", "vtime.rejected_bad_voucher", "vtime.rejected_outside_window", "vtime.rejected_before_epoch",
                          "vtime.window_or_epoch_edge_cases", "vtime.base_within_70000_of_u64_max", "vtime.now_cases", "vtime.now_provider_error_propagated",
                          "vtime.new_or_die_compared_with_new", "vtime.now_or_die_cases", "vtime.now_with_a_provider_that_takes_3ms"],
    "quick": [R("vtime", "dbg", cases=200000000, now_cases=400000)],
    "thorough": [R("vtime", "dbg", cases=3000000000, now_cases=4000000),
                 R("vtime", "rel", cases=8000000000, now_cases=4000000),
                 R("vtime", "miri", cases=3000, now_cases=0, timeout=3000)],
}


MIRI_ABT = "-Zmiri-disable-isolation -Zmiri-many-seeds=%d..%d"

def abt_miri(lo, hi, extra="", **kw):
    return R("abt", "miri", shards=1, mode="plain", miriflags=(MIRI_ABT % (lo, hi)) + extra, san_props=["C13"], no_restart=True, timeout=3000, **kw)

PLANS["C13"] = {
    "level": "exploration",
    "technique": "log-checking monitor (untorn, membership, never-observable, per-thread monotone, recent, final) over (a) Miri many-seeds executions of the real atomics (weak-memory emulation + seeded scheduler + data-race detector, no harness synchronisation during the run) and (b) native multi-thread stress with delay injection at every atomic access through hook H3 (ticket-ordered traces)",
    "rule": ("cases = executions of a multi-thread workload on one AtomicBaseTime: writers issue globally unique base times through update / try_update "
             "(mostly increasing, one fifth deliberately below the thread's own newest completed one; in a share of the runs also update() calls with a voucher for another value, which must panic, poison the writer lock and leave no trace) and snapshot in between; readers only snapshot; "
             "every thread logs into its own buffer and logs are checked after join. (a) under Miri: 2 writers x 4 updates, 2 readers x 6 snapshots, "
             "one execution per Miri seed (each seed = a different legal schedule and reads-from choice under Miri's C++20-style store-buffer "
             "emulation), Miri itself reports data races / UB / panics; (b) native: 4 writers x 25 updates + 4 readers x 50 snapshots per run, seeded "
             "delays (yield / spin / sleep) injected before each atomic access and lock operation via the H3 callback, each access stamped with a "
             "global ticket. Oracle: every snapshot pair has the voucher of its base (untorn) and is the epoch pair or a pair passed to update / "
             "try_update; bases of refused (try_update == false) or stale-when-issued updates are never observed by anyone; try_update never accepts "
             "a base below the thread's own completed one; per-thread snapshot bases never decrease; a snapshot is >= the thread's own completed "
             "updates and (b) >= every update that returned (ticket) before it began; the final quiescent snapshot is the newest accepted base; no "
             "thread panics. non-trivial = every execution; distinct = distinct hash of all per-thread logs (a) / of the ticket-ordered access trace (b)."),
    "assumptions": ["Miri's weak-memory emulation samples C++20 behaviours (store-buffer staleness, no load-buffering / out-of-thin-air); bounded to 4 threads x a dozen operations",
                    "H3 stand-ins delegate to the real std atomics with the caller's ordering; the monitors never assert which Ordering is passed",
                    "thread spawn/join are the only harness-induced happens-before edges in (a)"],
    "required_features": ["abt.plain_runs", "abt.stress_runs", "abt.snapshots_that_retried", "abt.snapshots_overlapping_1_completed_update",
                          "abt.snapshots_overlapping_2_completed_updates", "abt.try_update_returned_false", "abt.stale_updates_issued",
                          "abt.snapshots_of_another_threads_update", "abt.writer_lock_poisoned_by_panicking_update"],
    "quick": [abt_miri(0, 72),
              abt_miri(72, 96, "", poison=250),
              R("abt", "rel", mode="stress", cases=4000)],
    "thorough": [abt_miri(0, 1024),
                 abt_miri(1024, 2048, " -Zmiri-preemption-rate=0.1"),
                 abt_miri(2048, 3072, " -Zmiri-preemption-rate=0.3", writers=3, updates=3, readers=1, snapshots=8),
                 abt_miri(3072, 4096, " -Zmiri-preemption-rate=0.05", writers=1, updates=8, readers=3, snapshots=5),
                 abt_miri(4096, 4608, "", poison=250),
                 R("abt", "rel", mode="stress", cases=200000),
                 R("abt", "dbg", mode="stress", cases=20000)],
}

PLANS["C18"] = {
    "level": "fault_enumeration",
    "technique": "fault enumeration over suspension points: through hook H3 a writer is frozen at each of its instrumented steps (before/after every atomic access and lock operation), then a solo snapshot / try_update / get_base_time_unlocked runs to completion and its own step and lock-operation stream is judged; a blocking lock request against a frozen holder is a deterministic 'would wait' event",
    "level_text": "Bounded-complete enumeration of writer suspension points (first 20 instrumented events of update / try_update, 0..3 prior updates, optional second blocked writer, solo thread optionally parked mid-read while writes complete) on a private AtomicBaseTime and on nfs_voucher's static; held on every enumerated scenario.",
    "rule": ("cases = scenarios: writer op in {update, try_update} x completed updates before in 0..3 x freeze point = each of the writer's first 20 "
             "instrumented events (before/after lock, try_lock, each load, each slot store, the sequence store, unlock) x solo op in {snapshot, "
             "try_update} x optional second writer blocked on the lock; plus solo snapshot parked at each of its first 8 events while the released "
             "writer completes 0..2 further updates; plus, on the process-wide static of nfs_voucher, writer = observe_file_time (try_update path) or "
             "get_base_time(now+1h) (blocking update path) frozen at each of its first 24 events with solo get_base_time_unlocked. Oracle on the solo "
             "thread's own event stream: it completes; snapshot / get_base_time_unlocked perform zero lock operations, try_update exactly one "
             "non-blocking attempt and no blocking lock; atomic steps <= 8 with no write completing during the call, <= 8*(1+c) with c completing; "
             "the sequence word is re-read more than twice only if it changed; try_update returns false iff the frozen writer holds the lock; the "
             "returned pair is untorn, was passed to an update, and is at least as new as every update completed before. non-trivial = scenarios "
             "in which the writer was really frozen (or the solo thread parked); distinct = distinct scenario."),
    "assumptions": ["suspension points are the steps instrumented by H3 (every atomic access and lock operation of atomic_base_time); a blocking construct that bypasses the stand-ins would make the solo thread hang and the 20 s watchdog reports that as inconclusive (exit 3), never as a violation",
                    "the frozen thread is released only after the verdict"],
    "required_features": ["park.writer_frozen_holding_lock", "park.writer_frozen_without_lock", "park.second_writer_blocked", "park.solo_paused_mid_read",
                          "park.solo_retried_after_writes_completed", "park.try_update_true", "park.try_update_false_lock_held",
                          "park.static_writer_frozen_holding_lock", "park.static_solo_observe_file_time", "park.frozen_before_Store", "park.frozen_after_Store", "park.frozen_before_Unlock",
                          "park.many_try_updates_in_a_row_lock_held", "park.many_try_updates_in_a_row_lock_free", "park.solo_call_on_a_poisoned_lock"],
    "quick": [R("park", "dbg", repeats=16, max_freeze=24)],
    "thorough": [R("park", "dbg", repeats=64, max_freeze=24),
                 R("park", "rel", repeats=64, max_freeze=24),
                 R("park", "miri", shards=4, parallel=4, static=0, max_freeze=18, timeout=3000, san_props=["C18", "C13"])],
}

PLANS["C19"] = {
    "level": "exploration",
    "technique": "provenance monitor over the nfs_voucher module functions, one fresh process per history, on two real writable devices (scratch dir file system and /dev/shm) plus /proc and /dev: after every call the base time is monotone and any change equals the harness's own change-time reading of a file the call could examine on a trusted (or just-registered) device",
    "rule": ("cases = histories of 5..40 module calls in a fresh process: add_trusted_path (none yet / first / second device, either device first), "
             "observe_file_time and maybe_observe_file_time on {old file created before trust, file whose change-time was bumped by chmod just before the "
             "call} x {device A, device B}, /proc/self/stat, /dev/null and the trusted path itself, scan_base_time, get_base_time(now) with now in "
             "{base-10 s, base, base+1993 ms, base+1994 ms, base+1 h}, get_base_time_unlocked, sleeps of 1..4 ms or 101 ms (the refresh throttle), and "
             "replacing a registered trusted path by a symlink to a fresh file on the other device (a mount that moved; a refresh may then fail, but must not believe the new device), "
             "and a concurrent step: four threads bump and observe their own files on a trusted device at the same time (with small delays injected through hook H3 before lock attempts) while the history's thread polls the base time, which must never be seen to decrease. "
             "Oracle after every call: get_base_time_unlocked().0 never decreases; if it changed, the new value equals the change-time (ms) the "
             "harness itself reads from one of the files this call could have stat-ed on a device that was trusted before the call or is being "
             "registered by it; observe_file_time returns None for every other device and Some((that file's change-time, voucher)) for trusted ones; "
             "nothing moves before any trust and scan_base_time / get_base_time do not fail then; every returned pair vouches for its base; no call "
             "panics. Nothing requires an update to happen. non-trivial = every history; distinct = distinct (moves, untrusted reports, old-file "
             "observations, refreshes, calls before trust, second device, length class)."),
    "assumptions": ["the sandbox offers two writable devices with millisecond change-times (ext4 under /verif/target/tmp and tmpfs /dev/shm); otherwise the run is inconclusive",
                    "NFS itself is not available; the property is about device identity and change-times, which local file systems exercise identically",
                    "one history per process because the module state is process-global"],
    "required_features": ["nfs.base_time_moved", "nfs.untrusted_device_reported_nothing", "nfs.pseudo_fs_reported_nothing",
                          "nfs.older_trusted_file_did_not_move_base", "nfs.get_base_time_refreshed", "nfs.get_base_time_did_not_refresh",
                          "nfs.calls_before_any_trust", "nfs.second_device_trusted", "nfs.trusted_path_swapped_to_other_device",
                          "nfs.observations_made_by_concurrent_threads", "nfs.base_time_polls_during_concurrent_observers"],
    "quick": [R("nfs", "dbg", shards=4000, parallel=64, cases=4000)],
    "thorough": [R("nfs", "dbg", shards=40000, parallel=64, cases=40000),
                 R("nfs", "rel", shards=10000, parallel=64, cases=10000)],
}

MIRI_NOSB = "-Zmiri-disable-isolation -Zmiri-disable-stacked-borrows"

C05_RULE = (
    "cases = the histories of four engines, all run with the exposed-slice monitor: (iovec) multi-iovec histories incl. clone, take, clear, drop "
    "mid-history, arena take/swap/flush, anchored pushes whose halves are held back and pushed later or into another iovec, partial consumption; "
    "(codec) Encoder/Decoder round trips with anchored / trimmed / split / encode_read input and arena pokes through consumer().arena(); (stream) "
    "StreamChunker Data slices held across arena flushes/swaps until the end of the case and StreamReader records; (readn) AnchoredSlices that "
    "outlive their arena. After every operation every slice reachable through a read side (stable_prefix, front, iovs, iteration, AnchoredSlice::slice, "
    "Chunk::Data, returned records) must lie inside a live arena chunk per the H1 registry or inside a harness buffer that is still alive, must not "
    "be empty, arena-resident slices of one view must be pairwise disjoint, and every byte is read and compared (so that AddressSanitizer, Miri and "
    "the debug 0xFC poison see the access). Arena turnover is forced (flush_cache, take/swap_arena, ensure_capacity, chunk exhaustion) between the "
    "operation that could under-count and the later observation. The same histories run in an ASan+LSan build and, shortened, under Miri "
    "(dangling / out-of-bounds / uninitialised reads; experimental aliasing model off, see DESIGN observation O1). non-trivial = every history; "
    "distinct = distinct feature-vector hash as for C03 / C01 / C08 / C17.")

PLANS["C05"] = {
    "level": "exploration",
    "technique": "exposed-slice monitor against the H1 live-chunk registry + AddressSanitizer build + Miri (aliasing model off) + valgrind memcheck (thorough tier: uninitialised arena bytes) + debug 0xFC poison, on the iovec / codec / stream / readn histories with forced arena turnover and random drop orders",
    "rule": C05_RULE,
    "assumptions": IOVEC_ASSUME + ["lifetimes of caller buffers are enforced by the borrow checker on the harness itself and are not monitored",
                                   "ASan cannot see overruns that stay inside a live chunk; the disjointness and content checks cover those",
                                   "Miri's Stacked/Tree Borrows checks are off for owning_iovec (observation O1 in DESIGN.md): they flag consume_by_bytes + later merge on the unchanged tree, which is not one of the listed properties"],
    "required_features": ["iovec.exposed_slices_in_arena", "iovec.held_anchored_slice_pushed_later", "iovec.arena_swaps", "iovec.iovec_dropped_mid_history",
                          "iovec.cross_thread_clone_reads_checked",
                          "stream.chunker.exposed_slices_checked", "stream.reader.exposed_slices_checked", "codec.enc.arena_poke", "codec.enc.method.AnchoredSplit",
                          "readn.exposed_slices_checked"],
    "quick": [R("iovec", "dbg", cases=200000, focus="C05"),
              R("codec", "dbg", mode="random", prod_cases=20000, tiny_cases=200000),
              R("stream", "dbg", mode="chunker,reader", chunk_cases=300000, reader_cases=200000),
              R("readn", "dbg", script_len=4, wrapper_script_len=3, cases=50000),
              R("iovec", "asan", cases=12000, focus="C05"),
              R("codec", "asan", mode="random", prod_cases=2000, tiny_cases=20000),
              R("stream", "asan", mode="chunker,reader", chunk_cases=20000, reader_cases=15000),
              R("iovec", "miri", cases=32, focus="C05", ops=40, timeout=3000, miriflags=MIRI_NOSB)],
    "thorough": [R("iovec", "dbg", cases=3000000, focus="C05"),
                 R("iovec", "rel", cases=6000000, focus="C05"),
                 R("codec", "dbg", mode="random", prod_cases=150000, tiny_cases=2000000),
                 R("stream", "dbg", mode="chunker,reader,logs", chunk_cases=4000000, reader_cases=3000000, log_cases=500),
                 R("readn", "dbg", script_len=6, wrapper_script_len=5, cases=1000000),
                 R("iovec", "asan", cases=600000, focus="C05"),
                 R("codec", "asan", mode="random", prod_cases=40000, tiny_cases=400000),
                 R("stream", "asan", mode="chunker,reader", chunk_cases=600000, reader_cases=400000),
                 R("readn", "asan", script_len=4, wrapper_script_len=3, cases=100000),
                 R("iovec", "memcheck", cases=6000, focus="C05", handoffs=160, mt_rounds=1, timeout=6000),
                 R("codec", "memcheck", mode="random", prod_cases=600, tiny_cases=6000, timeout=6000),
                 R("stream", "memcheck", mode="chunker,reader", chunk_cases=6000, reader_cases=6000, timeout=6000),
                 R("iovec", "miri", cases=320, focus="C05", ops=60, timeout=6000, miriflags=MIRI_NOSB),
                 R("codec", "miri", mode="random", prod_cases=32, tiny_cases=320, timeout=6000, miriflags=MIRI_NOSB),
                 R("stream", "miri", mode="chunker,reader", chunk_cases=96, reader_cases=96, timeout=6000, miriflags=MIRI_NOSB)],
}

PLANS["C10"] = {
    "level": "exploration",
    "technique": "conservation monitor on the public process-wide counters (ByteArena::num_live_chunks / num_live_bytes back to their starting values after every history's objects are dropped in a random order) + LeakSanitizer on the same histories + bounded-footprint monitor on long drained streams",
    "rule": ("cases = (a) the iovec / codec / stream histories (see C03, C01, C08): each records the live-chunk and live-byte counters before it starts "
             "(single-threaded process), runs, drops every iovec, clone, taken arena, held AnchoredSlice, encoder, decoder, chunker and reader in a "
             "seeded random order and requires both counters to be back; an ASan+LSan build re-runs a slice and checks the heap at exit (the H1 "
             "registry stores addresses only); (b) long streams: S MiB pushed through a production Encoder (half of them through an Encoder->Decoder "
             "pipeline) in pieces of 1 B..256 KiB by borrow / copy / encode_read, draining everything consumable after every call by a random "
             "mechanism (consume, advance_slices, Read); live arena bytes must stay <= 8 MiB at every call and at every stream length, counters back "
             "to baseline afterwards; the evidence records the observed maximum per length. non-trivial = every history / stream; distinct = "
             "feature-vector hashes as for C03 / C01 / C08 and (length, payload style, piece sizes, pipeline, input method) for streams."),
    "assumptions": ["unbounded stream length restated as: flat observed maxima at several lengths under one fixed constant (8 MiB)",
                    "the counters are process-wide, so each history runs in a single-threaded process"],
    "required_features": ["iovec.drop_accounting_checked", "codec.drop_accounting_checked", "stream.drop_accounting_checked", "stream.drained_every_call",
                          "stream.anchored_slices_read_through_a_foreign_arena", "iovec.concurrent_rounds_with_accounting_back_to_baseline",
                          "stream.pipeline", "iovec.clones", "iovec.takes", "iovec.held_anchored_slice_pushed_later",
                          "stream.records_through_one_stream_reader", "stream.records_through_recycled_decoder"],
    "quick": [R("iovec", "dbg", cases=200000, focus="C10"),
              R("codec", "dbg", mode="random", prod_cases=20000, tiny_cases=200000),
              R("stream", "dbg", mode="chunker,reader", chunk_cases=200000, reader_cases=200000),
              R("codec-stream", "rel", shards=16, streams=96, mib=16, big_mib=64, focus="C10"),
              R("record-stream", "rel", shards=16, streams=32, mib=24),
              R("iovec", "asan", cases=8000, focus="C10", san_props=["C10", "C05"])],
    "thorough": [R("iovec", "dbg", cases=3000000, focus="C10"),
                 R("iovec", "rel", cases=6000000, focus="C10"),
                 R("codec", "dbg", mode="random", prod_cases=150000, tiny_cases=2000000),
                 R("stream", "dbg", mode="chunker,reader,logs", chunk_cases=3000000, reader_cases=3000000, log_cases=400),
                 R("codec-stream", "rel", shards=16, streams=256, mib=64, big_mib=1024, focus="C10"),
                 R("codec-stream", "dbg", shards=16, streams=64, mib=16, big_mib=64, focus="C10"),
                 R("record-stream", "rel", shards=16, streams=128, mib=256),
                 R("record-stream", "dbg", shards=16, streams=32, mib=24),
                 R("iovec", "asan", cases=400000, focus="C10", san_props=["C10", "C05"]),
                 R("stream", "asan", mode="chunker,reader", chunk_cases=200000, reader_cases=200000, san_props=["C10", "C05"])],
}
