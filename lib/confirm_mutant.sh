#!/bin/bash
# Confirm a seeded change in a scratch worktree:
#   lib/confirm_mutant.sh <worktree> <patch.diff> <demo.rs> <crate>
# (1) patch applies, workspace builds, existing suite passes; (2) demo fails with
# the patch; (3) demo passes without it.  Leaves the worktree clean.
set -u
WT=$1; PATCH=$(readlink -f $2); DEMO=$(readlink -f $3); CRATE=$4
cd "$WT" || exit 2
git checkout -q -- . ; mkdir -p $CRATE/tests; cp "$DEMO" $CRATE/tests/seeded_demo.rs
git apply "$PATCH" || { echo "PATCH-DOES-NOT-APPLY"; rm -f $CRATE/tests/seeded_demo.rs; exit 2; }
mv $CRATE/tests/seeded_demo.rs /tmp/seeded_demo_$$.rs
if cargo test --workspace --offline >/tmp/confirm_suite_$$.log 2>&1; then echo "suite-with-patch: PASS"; else echo "suite-with-patch: FAIL"; grep -E "FAILED|panicked|error" /tmp/confirm_suite_$$.log | head -5; fi
mv /tmp/seeded_demo_$$.rs $CRATE/tests/seeded_demo.rs
if cargo test -p $CRATE --test seeded_demo --offline >/tmp/confirm_demo_$$.log 2>&1; then echo "demo-with-patch: PASS (bad)"; else echo "demo-with-patch: FAIL (good)"; fi
git checkout -q -- .
if cargo test -p $CRATE --test seeded_demo --offline >/tmp/confirm_demo2_$$.log 2>&1; then echo "demo-without-patch: PASS (good)"; else echo "demo-without-patch: FAIL (bad)"; tail -5 /tmp/confirm_demo2_$$.log; fi
rm -f $CRATE/tests/seeded_demo.rs /tmp/confirm_*_$$.log
git status --porcelain | grep -v "^??" | head -3
