#!/usr/bin/env python3
"""Re-runs every seeded change under /verif/seeded against the quick check of
the property it was written for (and, with --all, every check listed in its
meta.json).  Usage: lib/run_seeded.py [--all] [id ...]"""
import glob
import json
import os
import subprocess
import sys

ROOT = os.path.dirname(os.path.dirname(os.path.abspath(__file__)))
args = sys.argv[1:]
all_checks = "--all" in args
ids = [a for a in args if not a.startswith("--")]
missed = 0
for d in sorted(glob.glob(os.path.join(ROOT, "seeded", "*"))):
    meta_path = os.path.join(d, "meta.json")
    if not os.path.exists(meta_path):
        continue
    m = json.load(open(meta_path))
    if ids and m["id"] not in ids:
        continue
    if m.get("counted") is False and not ids:
        # kept for the record only (see its note): outside the property's quantifier
        print("%-7s skipped: %s" % (m["id"], m.get("note", "")[:160]), flush=True)
        continue
    props = m["caught_by_quick_checks"] if all_checks else [m["breaks_property"]]
    r = subprocess.run([os.path.join(ROOT, "lib", "mutant.py"), os.path.join(d, "patch.diff")] + props,
                       stdout=subprocess.PIPE, stderr=subprocess.STDOUT, text=True, cwd=ROOT)
    for line in r.stdout.splitlines():
        print("%-7s %s" % (m["id"], line[:220]), flush=True)
    if r.returncode != 0:
        missed += 1
print("seeded changes not caught: %d" % missed)
sys.exit(1 if missed else 0)
