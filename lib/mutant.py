#!/usr/bin/env python3
"""Apply a seeded change to /repo, run the given checks against it, undo it.

  lib/mutant.py <patch.diff> Cxx [Cyy ...] [--tier quick|thorough]

/repo is restored (git checkout -- .) even if a check crashes.  Prints one
line per check: CAUGHT / MISSED / INCONCLUSIVE and the first violation."""
import subprocess
import sys
import os

HERE = os.path.dirname(os.path.abspath(__file__))
ROOT = os.path.dirname(HERE)


def sh(*a, **kw):
    return subprocess.run(a, stdout=subprocess.PIPE, stderr=subprocess.STDOUT, text=True, **kw)


def _term(signum, frame):
    raise KeyboardInterrupt()


def main():
    import signal
    signal.signal(signal.SIGTERM, _term)
    args = sys.argv[1:]
    tier = "quick"
    if "--tier" in args:
        i = args.index("--tier")
        tier = args[i + 1]
        del args[i:i + 2]
    patch = os.path.abspath(args[0])
    props = args[1:]
    st = sh("git", "-C", "/repo", "status", "--porcelain").stdout.strip()
    if st:
        print("refusing: /repo is not clean:\n" + st)
        return 2
    r = sh("git", "-C", "/repo", "apply", patch)
    if r.returncode != 0:
        print("patch does not apply:\n" + r.stdout)
        return 2
    rc_all = 0
    try:
        for p in props:
            r = sh(os.path.join(ROOT, "check"), p, "--tier", tier, cwd=ROOT)
            lines = r.stdout.splitlines()
            viol = [l for l in lines if l.startswith("VIOLATION")]
            what = [l for l in lines if l.startswith("  what:")]
            if r.returncode == 1 and viol:
                print("CAUGHT   %s  %s" % (p, (what[0].strip() if what else viol[0])[:300]))
            elif r.returncode == 0:
                print("MISSED   %s" % p)
                rc_all = 1
            else:
                tail = [l for l in lines if l.startswith("INCONCLUSIVE") or "BUILD FAILED" in l or l.startswith("error")]
                print("INCONCLUSIVE %s rc=%s %s" % (p, r.returncode, (tail[0] if tail else "\n".join(lines[-5:]))[:600]))
                rc_all = 1
    finally:
        sh("git", "-C", "/repo", "checkout", "--", ".")
        # drop evidence written against the mutated tree
        sh("git", "-C", ROOT, "checkout", "--", "evidence")
    return rc_all


if __name__ == "__main__":
    sys.exit(main())
